/-
  C08 – LZMA size and end-of-stream rules hold for every option combination
  (and the header part of C01: `header_spec`, `dict_below_4096_behaves_as_4096`).

  All statements are about the model functions `readHeader`, `lzmaDecompress`,
  `DState.processMode`, `DState.applySym`, `Stream.finish`; every reader, every
  option combination, every memlimit.  Sinks are ARBITRARY (scripted, possibly
  failing) unless a theorem says `snk.script = []` (perfect sink).
-/
import LzmaProofs.Lemmas.Header
import LzmaProofs.Lemmas.ProcessMode
namespace Lzma.C08
open DState

/-! ## 1. The header -/

/-- `header_spec`: complete functional description of `LzmaParams::read_header`.
* no byte ⇒ `HeaderTooShort`;
* first byte `b ≥ 225` ⇒ `LzmaError` (whatever follows);
* fewer than `hdrLen` (13 / 13 / 5) bytes ⇒ `HeaderTooShort`;
* otherwise `lc = b % 9`, `lp = b / 9 % 5`, `pb = b / 45`, `dictSize = max (LE bytes 1..4) 4096`,
  size in effect `effSize` and the reader advanced by exactly `hdrLen` bytes. -/
theorem header_spec (rd : Rd) (opts : Options) :
    readHeader rd opts =
      match rd.rem with
      | [] => .error .headerTooShort
      | b :: rest =>
        if b.toNat ≥ 225 then .error .lzma
        else if rest.length + 1 < hdrLen opts.unpackedSize then .error .headerTooShort
        else .ok ({ props := { lc := b.toNat % 9, lp := b.toNat / 9 % 5, pb := b.toNat / 45 }
                    dictSize := max (leVal (rest.take 4)) 4096
                    unpackedSize := effSize opts.unpackedSize (leVal ((rest.drop 4).take 8)) },
                  { rd with rem := rd.rem.drop (hdrLen opts.unpackedSize) }) :=
  readHeader_eq rd opts

/-- (a) `HeaderTooShort` iff the needed reads fail: no byte at all, or a valid properties byte
followed by fewer than 12 (resp. 4) further bytes -/
theorem header_too_short_iff (rd : Rd) (opts : Options) :
    readHeader rd opts = .error .headerTooShort ↔
      rd.rem = [] ∨
      (∃ b rest, rd.rem = b :: rest ∧ b.toNat < 225 ∧ rd.rem.length < hdrLen opts.unpackedSize) := by
  rw [readHeader_eq]
  rcases rd with ⟨_ | ⟨b, rest⟩, bad⟩
  · simp
  · by_cases hb : b.toNat ≥ 225
    · simp only [hb, if_true]
      constructor
      · intro h; cases h
      · rintro (h | ⟨b', rest', h, hlt, -⟩)
        · cases h
        · cases h; omega
    · by_cases hl : rest.length + 1 < hdrLen opts.unpackedSize
      · simp only [hb, hl, if_true, if_false, true_iff]
        exact .inr ⟨b, rest, rfl, by omega, by simpa using hl⟩
      · simp only [hb, hl, if_false, reduceCtorEq, false_iff]
        rintro (h | ⟨b', rest', h, -, hlt⟩)
        · cases h
        · exact hl (by simpa using hlt)

/-- (b) `LzmaError` iff there is a first byte and it is `≥ 225` -/
theorem header_lzma_iff (rd : Rd) (opts : Options) :
    readHeader rd opts = .error .lzma ↔ ∃ b rest, rd.rem = b :: rest ∧ b.toNat ≥ 225 := by
  rw [readHeader_eq]
  rcases rd with ⟨_ | ⟨b, rest⟩, bad⟩
  · simp
  · by_cases hb : b.toNat ≥ 225
    · simp only [hb, if_true, true_iff]; exact ⟨b, rest, rfl, hb⟩
    · simp only [hb, if_false]
      constructor
      · intro h; split at h <;> cases h
      · rintro ⟨b', rest', h, hge⟩; cases h; exact absurd hge hb

/-- the header never fails in any other way (in particular it never panics) -/
theorem header_errors (rd : Rd) (opts : Options) (e : Err) (h : readHeader rd opts = .error e) :
    e = .headerTooShort ∨ e = .lzma := by
  rw [readHeader_eq] at h
  rcases rd with ⟨_ | ⟨b, rest⟩, bad⟩
  · cases h; exact .inl rfl
  · simp only at h
    split at h
    · cases h; exact .inr rfl
    · split at h
      · cases h; exact .inl rfl
      · cases h

/-- (c) on success: the parameter ranges, the dictionary floor and the exact consumption -/
theorem header_ok_spec {rd rd' : Rd} {opts : Options} {p : LzmaParams}
    (h : readHeader rd opts = .ok (p, rd')) :
    ∃ b rest, rd.rem = b :: rest ∧ b.toNat < 225 ∧ hdrLen opts.unpackedSize ≤ rd.rem.length ∧
      p.props.lc = b.toNat % 9 ∧ p.props.lp = b.toNat / 9 % 5 ∧ p.props.pb = b.toNat / 45 ∧
      p.props.lc ≤ 8 ∧ p.props.lp ≤ 4 ∧ p.props.pb ≤ 4 ∧
      p.dictSize = max (leVal (rest.take 4)) 4096 ∧ 4096 ≤ p.dictSize ∧
      p.unpackedSize = effSize opts.unpackedSize (leVal ((rest.drop 4).take 8)) ∧
      rd' = { rd with rem := rd.rem.drop (hdrLen opts.unpackedSize) } := by
  rw [readHeader_eq] at h
  rcases rd with ⟨_ | ⟨b, rest⟩, bad⟩
  · cases h
  · simp only at h
    split at h
    · cases h
    · split at h
      · cases h
      · rename_i hb hl
        cases h
        refine ⟨b, rest, rfl, by omega, by simp only [List.length_cons]; omega, rfl, rfl, rfl, ?_, ?_, ?_,
          rfl, ?_, rfl, rfl⟩
        · simp only [hdrParams]; omega
        · simp only [hdrParams]; omega
        · simp only [hdrParams]; omega
        · simp only [hdrParams]; omega

/-- `header_bytes_consumed`: `ReadFromHeader`, `ReadHeaderButUseProvided _` and `UseProvided _`
consume exactly 13, 13 and 5 bytes -/
theorem header_bytes_consumed {rd rd' : Rd} {opts : Options} {p : LzmaParams}
    (h : readHeader rd opts = .ok (p, rd')) :
    rd.rem.length = rd'.rem.length +
      (match opts.unpackedSize with
        | .readFromHeader => 13
        | .readHeaderButUseProvided _ => 13
        | .useProvided _ => 5) ∧
    rd'.rem = rd.rem.drop (rd.rem.length - rd'.rem.length) ∧ rd'.bad = rd.bad := by
  obtain ⟨b, rest, -, -, hlen, -, -, -, -, -, -, -, -, -, rfl⟩ := header_ok_spec h
  have : hdrLen opts.unpackedSize = (match opts.unpackedSize with
        | .readFromHeader => 13
        | .readHeaderButUseProvided _ => 13
        | .useProvided _ => 5) := by cases opts.unpackedSize <;> rfl
  rw [← this]
  simp only [List.length_drop]
  refine ⟨by omega, ?_, trivial⟩
  congr 1; omega

/-- the size in effect: header field (all ones ⇒ none) / provided / provided -/
theorem header_size_in_effect {rd rd' : Rd} {opts : Options} {p : LzmaParams}
    (h : readHeader rd opts = .ok (p, rd')) :
    match opts.unpackedSize with
    | .readFromHeader =>
      p.unpackedSize = (if leVal ((rd.rem.drop 5).take 8) = 0xFFFFFFFFFFFFFFFF then none
                        else some (leVal ((rd.rem.drop 5).take 8)))
    | .readHeaderButUseProvided x => p.unpackedSize = x
    | .useProvided x => p.unpackedSize = x := by
  obtain ⟨b, rest, hrem, -, -, -, -, -, -, -, -, -, -, hu, -⟩ := header_ok_spec h
  rw [hu, hrem]
  cases opts.unpackedSize <;> simp [effSize]

/-- all-ones size field ⇔ no size in effect (`ReadFromHeader`) -/
theorem header_size_none_iff_all_ff {rd rd' : Rd} {opts : Options} {p : LzmaParams}
    (h : readHeader rd opts = .ok (p, rd')) (ho : opts.unpackedSize = .readFromHeader) :
    p.unpackedSize = none ↔ leVal ((rd.rem.drop 5).take 8) = 0xFFFFFFFFFFFFFFFF := by
  have := header_size_in_effect h
  rw [ho] at this
  simp only at this
  rw [this]
  split <;> simp [*]

/-- `provided_overrides_header`: with a provided size the 8 size bytes of the header are
irrelevant (read and ignored, resp. not read at all): the parameters do not depend on them -/
theorem provided_overrides_header (b : UInt8) (d f1 f2 tail : Bytes) (bad : Bool) (x : Option Nat)
    (ml : Option Nat) (ai : Bool) (hd : d.length = 4) (h1 : f1.length = 8) (h2 : f2.length = 8) :
    readHeader ⟨b :: d ++ f1 ++ tail, bad⟩ ⟨.readHeaderButUseProvided x, ml, ai⟩ =
      readHeader ⟨b :: d ++ f2 ++ tail, bad⟩ ⟨.readHeaderButUseProvided x, ml, ai⟩ ∧
    ∀ p rd', readHeader ⟨b :: d ++ f1 ++ tail, bad⟩ ⟨.readHeaderButUseProvided x, ml, ai⟩ = .ok (p, rd') →
      p.unpackedSize = x ∧ rd'.rem = tail := by
  constructor
  · rw [readHeader_eq, readHeader_eq]
    simp [hdrLen, hdrParams, effSize, hd, h1, h2, List.drop_append]
  · intro p rd' h
    obtain ⟨b', rest, hrem, -, -, -, -, -, -, -, -, -, -, hu, rfl⟩ := header_ok_spec h
    refine ⟨by simpa [effSize] using hu, ?_⟩
    simp [hdrLen, hd, h1, List.drop_append]

/-- `dict_below_4096_behaves_as_4096`: two headers that differ only in the dictionary field,
one `< 4096` (or `= 4096`), the other `= 4096`, give identical results (parameters and reader) -/
theorem dict_below_4096_behaves_as_4096 (b : UInt8) (d1 d2 tail : Bytes) (bad : Bool)
    (opts : Options) (h1 : d1.length = 4) (h2 : d2.length = 4)
    (hv1 : leVal d1 ≤ 4096) (hv2 : leVal d2 = 4096) :
    readHeader ⟨b :: d1 ++ tail, bad⟩ opts = readHeader ⟨b :: d2 ++ tail, bad⟩ opts := by
  rw [readHeader_eq, readHeader_eq]
  have e1 : (d1 ++ tail).take 4 = d1 := by simp [h1]
  have e2 : (d2 ++ tail).take 4 = d2 := by simp [h2]
  have e3 : (d1 ++ tail).drop 4 = tail := by simp [h1]
  have e4 : (d2 ++ tail).drop 4 = tail := by simp [h2]
  have e5 : (b :: d1 ++ tail).drop (hdrLen opts.unpackedSize) =
      (b :: d2 ++ tail).drop (hdrLen opts.unpackedSize) := by
    have : ∀ k, (b :: d1 ++ tail).drop (k + 5) = (b :: d2 ++ tail).drop (k + 5) := by
      intro k
      simp only [List.cons_append, List.drop_succ_cons, List.drop_append, h1, h2]
      rw [List.drop_of_length_le (l := d1) (by omega), List.drop_of_length_le (l := d2) (by omega)]
    cases opts.unpackedSize
    · exact this 8
    · exact this 8
    · exact this 0
  simp only [List.cons_append, hdrParams, e1, e2, e3, e4, List.length_append, h1, h2] at e5 ⊢
  rw [e5, hv2, Nat.max_eq_right hv1]
  rfl

example : readHeader ⟨0x5d :: [1, 0, 0, 0] ++ [9, 9], false⟩ {} =
    readHeader ⟨0x5d :: [0, 0x10, 0, 0] ++ [9, 9], false⟩ {} :=
  dict_below_4096_behaves_as_4096 _ _ _ _ _ _ rfl rfl (by decide) (by decide)

/-- … and therefore the whole decompression is identical -/
theorem dict_below_4096_decompress_same (b : UInt8) (d1 d2 tail : Bytes) (bad : Bool)
    (opts : Options) (h1 : d1.length = 4) (h2 : d2.length = 4)
    (hv1 : leVal d1 ≤ 4096) (hv2 : leVal d2 = 4096) (snk : Sink) :
    lzmaDecompress ⟨b :: d1 ++ tail, bad⟩ opts snk = lzmaDecompress ⟨b :: d2 ++ tail, bad⟩ opts snk := by
  simp only [lzmaDecompress, dict_below_4096_behaves_as_4096 b d1 d2 tail bad opts h1 h2 hv1 hv2]

/-- after a successful header the decoder is always constructed: no zero dictionary, and
`LzmaProperties::validate` cannot panic -/
theorem decoder_new_ok_after_header {rd rd' : Rd} {opts : Options} {p : LzmaParams}
    (h : readHeader rd opts = .ok (p, rd')) (ml : Option Nat) :
    ∃ dec, LzmaDecoder.new p ml = .ok dec := by
  obtain ⟨b, rest, -, -, -, -, -, -, h1, h2, h3, -, hd, -, -⟩ := header_ok_spec h
  have hd' : p.dictSize ≠ 0 := by omega
  simp [LzmaDecoder.new, DState.new, Props.validate, hd', h1, h2, h3, bind, Except.bind, pure, Except.pure]

/-! ### non-vacuity of the header theorems: one concrete header per option form -/

example : readHeader (Rd.ofBytes ([0x5d, 0, 0, 0x80, 0] ++ leBytes 8 5 ++ [7, 7])) {} =
    .ok ({ props := ⟨3, 0, 2⟩, dictSize := 0x800000, unpackedSize := some 5 }, Rd.ofBytes [7, 7]) := by
  rfl
example : readHeader (Rd.ofBytes ([0x5d, 0, 0, 0x80, 0] ++ leBytes 8 0xFFFFFFFFFFFFFFFF ++ [7])) {} =
    .ok ({ props := ⟨3, 0, 2⟩, dictSize := 0x800000, unpackedSize := none }, Rd.ofBytes [7]) := by
  rfl
example : readHeader (Rd.ofBytes ([0x5d, 0, 0, 0x80, 0] ++ leBytes 8 5 ++ [7]))
      { unpackedSize := .readHeaderButUseProvided (some 9) } =
    .ok ({ props := ⟨3, 0, 2⟩, dictSize := 0x800000, unpackedSize := some 9 }, Rd.ofBytes [7]) := by
  rfl
example : readHeader (Rd.ofBytes ([0x5d, 1, 0, 0, 0] ++ [7, 8])) { unpackedSize := .useProvided none } =
    .ok ({ props := ⟨3, 0, 2⟩, dictSize := 4096, unpackedSize := none }, Rd.ofBytes [7, 8]) := by
  rfl
example : readHeader (Rd.ofBytes [225, 0, 0]) {} = .error .lzma := by rfl
example : readHeader (Rd.ofBytes [224, 0, 0, 0, 0, 0, 0, 0, 0, 0, 0, 0]) {} = .error .headerTooShort := by
  rfl
example : readHeader (Rd.ofBytes [224, 0, 0, 0, 0]) { unpackedSize := .useProvided (some 3) } =
    .ok ({ props := ⟨8, 4, 4⟩, dictSize := 4096, unpackedSize := some 3 }, Rd.ofBytes []) := by
  rfl

/-! ## 2. The size rule (`process_mode`, generic over the window `ω`, arbitrary sink) -/

section generic
variable {ω : Type} [LzBuf ω]

/-- the loop never changes `unpacked_size` nor the properties -/
theorem loop_keeps_size {mode : Mode} {fuel : Nat} {s : DState} {w : ω} {rc : RC}
    {rd : Rd} {snk snk' : Sink} {s' : DState} {w' : ω} {rc' : RC} {rd' : Rd}
    (h : processLoop mode fuel s w rc rd snk = (snk', .ok (s', w', rc', rd'))) :
    s'.unpackedSize = s.unpackedSize ∧ s'.props = s.props :=
  processLoop_unpackedSize_const h

/-- `size_in_effect_exact`, loop level: Finish mode with size `n` in effect succeeds only with
exactly `n` bytes in the window (any staged `partial_input_buf`, any sink, any window type) -/
theorem finish_size_exact {s : DState} {w : ω} {rc : RC} {rd : Rd}
    {snk snk' : Sink} {s' : DState} {w' : ω} {rc' : RC} {rd' : Rd} {n : Nat}
    (h : processMode .finish s w rc rd snk = (snk', .ok (s', w', rc', rd')))
    (hn : s.unpackedSize = some n) : LzBuf.len w' = n :=
  processMode_finish_size h hn

/-- … and the only way out of the loop was the size test: the end marker, if any, is NOT consumed
when a size is in effect -/
theorem finish_size_exit {c : Cfg ω} {snk' : Sink} {s' : DState} {w' : ω} {rc' : RC} {rd' : Rd} {n : Nat}
    (hp : c.s.partialBuf = [])
    (h : processMode .finish c.s c.w c.rc c.rd c.snk = (snk', .ok (s', w', rc', rd')))
    (hn : c.s.unpackedSize = some n) :
    ∃ k, FinishRun c k .sizeReached ⟨s', w', rc', rd', snk'⟩ ∧ LzBuf.len w' = n := by
  obtain ⟨k, e, hr, hsz⟩ := processMode_finish_run hp h
  have hlen := hsz n hn
  have := hr.exit_of_size hn hlen
  subst this
  exact ⟨k, hr, hlen⟩

/-- `input_exhausted_is_error` (contrapositive of `finish_size_exact`): if after `k` full
iterations the window is still short of `n` and decoding the next symbol fails — in particular
when `read_u8` hits the end of the input (`e = .eof`/`.io`) — then `process_mode` does not succeed -/
theorem input_exhausted_is_error {c c1 : Cfg ω} {k n : Nat} {e : Err} (hp : c.s.partialBuf = [])
    (hs : FinishSteps c k c1) (hn : c.s.unpackedSize = some n) (hlt : LzBuf.len c1.w < n)
    (hfail : runDec true (symTree (c1.s.mkCtx c1.w)) c1.s.probs c1.rc c1.rd = .error e)
    (snk' : Sink) (r : DState × ω × RC × Rd) :
    processMode .finish c.s c.w c.rc c.rd c.snk ≠ (snk', .ok r) := by
  intro h
  obtain ⟨s', w', rc', rd'⟩ := r
  obtain ⟨k', e', hr, hsz⟩ := processMode_finish_run hp h
  obtain ⟨j, -, hr1⟩ := hs.run_split hr hp
  have hn1 : c1.s.unpackedSize = some n := hs.fields.1.trans hn
  cases hr1 with
  | sizeReached hu hlen => rw [hn1] at hu; cases hu; omega
  | cleanEof hu _ => rw [hn1] at hu; cases hu
  | marker _ _ hnx => obtain ⟨sym, probs, h1, -⟩ := processNext_ok_iff.1 hnx; rw [hfail] at h1; cases h1
  | step _ _ hnx _ => obtain ⟨sym, probs, h1, -⟩ := processNext_ok_iff.1 hnx; rw [hfail] at h1; cases h1

/-- the same with the exact result: given enough fuel the loop returns that very error (or the
I/O error of `fill_buf`) and has not touched the sink since -/
theorem input_exhausted_loop_error {c c1 : Cfg ω} {k n : Nat} {e : Err} (hp : c.s.partialBuf = [])
    (hs : FinishSteps c k c1) (hn : c.s.unpackedSize = some n) (hlt : LzBuf.len c1.w < n)
    (hfail : runDec true (symTree (c1.s.mkCtx c1.w)) c1.s.probs c1.rc c1.rd = .error e) (fuel : Nat) :
    processLoop .finish (fuel + 1 + k) c.s c.w c.rc c.rd c.snk =
      (c1.snk, .error (if c1.rd.rem.isEmpty && c1.rd.bad then .io else e)) := by
  rw [hs.loop_eq hp, processLoop_finish_succ (hs.partialBuf hp)]
  have hn1 : c1.s.unpackedSize = some n := hs.fields.1.trans hn
  have : ¬ n ≤ LzBuf.len c1.w := by omega
  simp only [bind_run, stopTest_some hn1, this, decide_false, liftE_ok, Bool.false_eq_true, if_false,
    Rd.fillBuf]
  by_cases hb : (c1.rd.rem.isEmpty && c1.rd.bad) = true
  · simp [hb]
  · simp [hb, processNext, bind_run, hfail]

/-- `marker_before_size_is_error`, symbol level: the end marker never extends the window; it
yields `Finished` (iff `is_finished_ok`), `LzmaError`, or the reader's I/O error -/
theorem marker_sym_result (s : DState) (w : ω) (rc : RC) (rd : Rd) (l : Nat) (snk : Sink) :
    applySym s w rc rd (.mtch l 0xFFFFFFFF) snk =
      (snk, match rc.isFinishedOk rd with
        | .ok true => .ok (.finished, markerState s, w)
        | .ok false => .error .lzma
        | .error e => .error e) :=
  applySym_marker s w rc rd l snk

/-- `marker_before_size_is_error`: if after `k` full iterations the window is still short of `n`
and the next symbol is the end marker (`process_next` returns `Finished`), `process_mode` does
not succeed … -/
theorem marker_before_size_is_error {c c1 : Cfg ω} {k n : Nat} (hp : c.s.partialBuf = [])
    (hs : FinishSteps c k c1) (hn : c.s.unpackedSize = some n) (hlt : LzBuf.len c1.w < n)
    {snk1 : Sink} {s1 : DState} {w1 : ω} {rc1 : RC} {rd1 : Rd}
    (hm : processNext c1.s c1.w c1.rc c1.rd c1.snk = (snk1, .ok (.finished, s1, w1, rc1, rd1)))
    (snk' : Sink) (r : DState × ω × RC × Rd) :
    processMode .finish c.s c.w c.rc c.rd c.snk ≠ (snk', .ok r) := by
  intro h
  obtain ⟨s', w', rc', rd'⟩ := r
  have hlen := processMode_finish_size h hn
  obtain ⟨k', e', hr, -⟩ := processMode_finish_run hp h
  obtain ⟨j, -, hr1⟩ := hs.run_split hr hp
  have hn1 : c1.s.unpackedSize = some n := hs.fields.1.trans hn
  have hw1 : w1 = c1.w := (processNext_finished_iff.1 hm).choose_spec.choose_spec.2.2.2.1
  cases hr1 with
  | sizeReached hu hl => rw [hn1] at hu; cases hu; omega
  | cleanEof hu _ => rw [hn1] at hu; cases hu
  | marker _ _ hnx => rw [hm] at hnx; cases hnx; rw [hw1] at hlen; omega
  | step _ _ hnx _ => rw [hm] at hnx; cases hnx

/-- … precisely: the loop stops there with the window unchanged, and the final check
`unpacked_size != output.len()` of `process_mode` is what turns it into `LzmaError` -/
theorem marker_before_size_loop_exit {c c1 : Cfg ω} {k n : Nat} (hp : c.s.partialBuf = [])
    (hs : FinishSteps c k c1) (hn : c.s.unpackedSize = some n) (hlt : LzBuf.len c1.w < n)
    (hfill : c1.rd.fillBuf = .ok ())
    {snk1 : Sink} {s1 : DState} {w1 : ω} {rc1 : RC} {rd1 : Rd}
    (hm : processNext c1.s c1.w c1.rc c1.rd c1.snk = (snk1, .ok (.finished, s1, w1, rc1, rd1)))
    (fuel : Nat) :
    processLoop .finish (fuel + 2 + k) c.s c.w c.rc c.rd c.snk = (snk1, .ok (s1, c1.w, rc1, rd1)) ∧
      LzBuf.len c1.w ≠ n := by
  have hn1 : c1.s.unpackedSize = some n := hs.fields.1.trans hn
  have hw1 : w1 = c1.w := (processNext_finished_iff.1 hm).choose_spec.choose_spec.2.2.2.1
  have hstop : stopTest .finish c1.s c1.w c1.rc c1.rd = .ok false := by
    rw [stopTest_some hn1]; congr 1; exact decide_eq_false (by omega)
  have hr := hs.append_run (FinishRun.marker hstop hfill hm)
  have := hr.loop_ok hp (fuel + 2 + k) (by omega)
  rw [hw1] at this
  exact ⟨this, by omega⟩

/-- the final check of `process_mode` (Finish): a loop that ends with `len ≠ n` is `LzmaError` -/
theorem size_mismatch_is_lzma_error {s : DState} {w : ω} {rc : RC} {rd : Rd}
    {snk snk' : Sink} {s' : DState} {w' : ω} {rc' : RC} {rd' : Rd} {n : Nat}
    (hl : processLoop .finish (loopFuel s rd) s w rc rd snk = (snk', .ok (s', w', rc', rd')))
    (hn : s.unpackedSize = some n) (hne : LzBuf.len w' ≠ n) :
    processMode .finish s w rc rd snk = (snk', .error .lzma) :=
  processMode_size_mismatch hl hn hne

/-- `overshoot_is_error`: if after `k` full iterations (the last one e.g. a copy passing `n`) the
window is longer than `n`, `process_mode` does not succeed: the loop exits at its next test
(`len ≥ n`) and then `n ≠ len` -/
theorem overshoot_is_error {c c2 : Cfg ω} {k n : Nat} (hp : c.s.partialBuf = [])
    (hs : FinishSteps c k c2) (hn : c.s.unpackedSize = some n) (hgt : n < LzBuf.len c2.w)
    (snk' : Sink) (r : DState × ω × RC × Rd) :
    processMode .finish c.s c.w c.rc c.rd c.snk ≠ (snk', .ok r) := by
  intro h
  obtain ⟨s', w', rc', rd'⟩ := r
  have hlen := processMode_finish_size h hn
  obtain ⟨k', e', hr, -⟩ := processMode_finish_run hp h
  obtain ⟨j, -, hr1⟩ := hs.run_split hr hp
  have hn2 : c2.s.unpackedSize = some n := hs.fields.1.trans hn
  have hstop : stopTest .finish c2.s c2.w c2.rc c2.rd = .ok true := by
    rw [stopTest_some hn2]; congr 1; exact decide_eq_true (by omega)
  cases hr1 with
  | sizeReached hu hl => simp only at hgt; omega
  | cleanEof hu _ => rw [hn2] at hu; cases hu
  | marker hst _ _ => rw [hstop] at hst; cases hst
  | step hst _ _ _ => rw [hstop] at hst; cases hst

/-- … precisely: the loop exits right there, successfully, with `len > n` -/
theorem overshoot_loop_exit {c c2 : Cfg ω} {k n : Nat} (hp : c.s.partialBuf = [])
    (hs : FinishSteps c k c2) (hn : c.s.unpackedSize = some n) (hgt : n < LzBuf.len c2.w)
    (fuel : Nat) :
    processLoop .finish (fuel + 1 + k) c.s c.w c.rc c.rd c.snk = (c2.snk, .ok (c2.s, c2.w, c2.rc, c2.rd)) ∧
      LzBuf.len c2.w ≠ n := by
  have hn2 : c2.s.unpackedSize = some n := hs.fields.1.trans hn
  have hr := hs.append_run (FinishRun.sizeReached hn2 (by omega : n ≤ LzBuf.len c2.w))
  exact ⟨hr.loop_ok hp (fuel + 1 + k) (by omega), by omega⟩

/-- `marker_then_bytes_errs` ("any byte after the marker is an error"): when the end marker is
decoded while the reader still has bytes, or `code ≠ 0`, the result is `LzmaError`
(size in effect or not, any sink, any window) -/
theorem marker_then_bytes_errs (s : DState) (w : ω) (rc : RC) (rd : Rd) (l : Nat) (snk : Sink)
    (h : rd.rem ≠ [] ∨ rc.code ≠ 0) :
    applySym s w rc rd (.mtch l 0xFFFFFFFF) snk = (snk, .error .lzma) := by
  rw [applySym_marker]
  have : rc.isFinishedOk rd = .ok false := by
    rcases rd with ⟨rem, bad⟩
    by_cases hc : rc.code = 0
    · cases rem with
      | nil => simp [hc] at h
      | cons b r => simp [RC.isFinishedOk, Rd.isEof, hc]
    · simp [RC.isFinishedOk, hc, pure, Except.pure]
  rw [this]

/-- the same for a whole `process_next`: if the symbol decoded is the end marker and after its
last bit the reader still has bytes or `code ≠ 0`, `process_next` fails with `LzmaError`,
sink untouched -/
theorem marker_then_bytes_errs_next (s : DState) (w : ω) (rc : RC) (rd : Rd) (snk : Sink)
    {l : Nat} {probs : Probs} {rc' : RC} {rd' : Rd}
    (hdec : runDec true (symTree (s.mkCtx w)) s.probs rc rd = .ok (.mtch l 0xFFFFFFFF, probs, rc', rd'))
    (h : rd'.rem ≠ [] ∨ rc'.code ≠ 0) :
    processNext s w rc rd snk = (snk, .error .lzma) := by
  simp only [processNext, bind_run, hdec, liftE_ok]
  rw [marker_then_bytes_errs _ w rc' rd' l snk h]

end generic

/-! ## 3. `lzma_decompress_with_options` -/

/-- The decoding stage of `lzmaDecompress rd opts` on sink `snk`: the header is parsed, decoder and
range coder are set up, and from there the Finish-mode loop makes `k` calls of `process_next`
and leaves successfully by exit `e` in configuration `c'`. -/
def LzmaRun (rd : Rd) (opts : Options) (snk : Sink) (k : Nat) (e : Exit) (c' : Cfg Circ) : Prop :=
  ∃ params rd1 dec rc rd2,
    readHeader rd opts = .ok (params, rd1) ∧
    LzmaDecoder.new params opts.memlimit = .ok dec ∧
    RC.new rd1 = .ok (rc, rd2) ∧
    FinishRun ⟨dec.state, Circ.fromStream params.dictSize (opts.memlimit.getD USIZE_MAX), rc, rd2, snk⟩
      k e c'

/-- the end marker was decoded (and accepted) -/
def MarkerSeen (rd : Rd) (opts : Options) (snk : Sink) : Prop := ∃ k c', LzmaRun rd opts snk k .marker c'

/-- the loop was left by the top-of-loop test `is_finished_ok` with no size in effect (K1):
all input consumed, `code = 0`, at a symbol boundary, after `k` symbols, none of them the marker -/
def CleanEofExit (rd : Rd) (opts : Options) (snk : Sink) : Prop := ∃ k c', LzmaRun rd opts snk k .cleanEof c'

/-- the run of a given call is unique -/
theorem LzmaRun.unique {rd : Rd} {opts : Options} {snk : Sink} {k1 k2 : Nat} {e1 e2 : Exit}
    {c1 c2 : Cfg Circ} (h1 : LzmaRun rd opts snk k1 e1 c1) (h2 : LzmaRun rd opts snk k2 e2 c2) :
    k1 = k2 ∧ e1 = e2 ∧ c1 = c2 := by
  obtain ⟨p, r1, d, rc, r2, a1, a2, a3, a4⟩ := h1
  obtain ⟨p', r1', d', rc', r2', b1, b2, b3, b4⟩ := h2
  rw [a1] at b1; cases b1
  rw [a2] at b2; cases b2
  rw [a3] at b3; cases b3
  exact a4.unique b4 (LzmaDecoder.new_ok a2).2.2.1

/-- every successful call has a run; `Circ.finish` on its final window produced the final sink -/
theorem lzmaDecompress_run {rd : Rd} {opts : Options} {snk snk' : Sink} {rd' : Rd}
    (h : lzmaDecompress rd opts snk = (snk', .ok rd')) :
    ∃ k e c', LzmaRun rd opts snk k e c' ∧ c'.rd = rd' ∧ c'.w.finish c'.snk = (snk', .ok ()) ∧
      ∀ params rd1, readHeader rd opts = .ok (params, rd1) →
        ∀ n, params.unpackedSize = some n → c'.w.len = n := by
  obtain ⟨params, rd1, dec, rc, rd2, s', w', rc', snk1, hh, hd, hrc, hpm, hfin⟩ :=
    lzmaDecompress_ok_iff.1 h
  obtain ⟨-, -, hp, hu, -⟩ := LzmaDecoder.new_ok hd
  obtain ⟨k, e, hr, hsz⟩ := processMode_finish_run
    (c := ⟨dec.state, Circ.fromStream params.dictSize (opts.memlimit.getD USIZE_MAX), rc, rd2, snk⟩) hp hpm
  refine ⟨k, e, _, ⟨params, rd1, dec, rc, rd2, hh, hd, hrc, hr⟩, rfl, hfin, ?_⟩
  intro params' rd1' hh' n hn
  rw [hh] at hh'; cases hh'
  exact hsz n (hu.trans hn)

/-- `size_in_effect_exact` (C08 core; ARBITRARY sink, every memlimit, every option form): if the
size in effect is `some n` and `lzma_decompress` succeeds, the decoder left its loop through the
size test with exactly `n` bytes in the window (`len = n`), and that window was `finish`ed -/
theorem size_in_effect_exact {rd : Rd} {opts : Options} {snk snk' : Sink} {rd' : Rd}
    {params : LzmaParams} {rd1 : Rd} {n : Nat}
    (h : lzmaDecompress rd opts snk = (snk', .ok rd'))
    (hh : readHeader rd opts = .ok (params, rd1)) (hn : params.unpackedSize = some n) :
    ∃ k c', LzmaRun rd opts snk k .sizeReached c' ∧ c'.w.len = n ∧ c'.rd = rd' ∧
      c'.w.finish c'.snk = (snk', .ok ()) := by
  obtain ⟨k, e, c', hrun, hrd, hfin, hsz⟩ := lzmaDecompress_run h
  have hlen := hsz params rd1 hh n hn
  obtain ⟨p, r1, d, rc, r2, a1, a2, a3, a4⟩ := hrun
  rw [hh] at a1; cases a1
  have hu := (LzmaDecoder.new_ok a2).2.2.2.1
  have he : e = .sizeReached := a4.exit_of_size (hu.trans hn) hlen
  subst he
  exact ⟨k, c', ⟨_, _, d, rc, r2, hh, a2, a3, a4⟩, hlen, hrd, hfin⟩

/-- `circ_len_counts_output` for the runs of `lzma_decompress`: on a PERFECT sink (`script = []`:
every write is accepted in full) the circular window has delivered, once `finish`ed, exactly
`len` bytes.  (Count only; the contents are `Lemmas/Window.lean`.) -/
theorem circ_len_counts_output {rd : Rd} {opts : Options} {snk snk' : Sink} {k : Nat} {e : Exit}
    {c' : Cfg Circ} (hperfect : snk.script = []) (hrun : LzmaRun rd opts snk k e c')
    (hfin : c'.w.finish c'.snk = (snk', .ok ())) :
    snk'.out.size = snk.out.size + c'.w.len ∧ snk'.script = [] := by
  obtain ⟨p, r1, d, rc, r2, a1, a2, a3, a4⟩ := hrun
  obtain ⟨b, rest, -, -, -, -, -, -, -, -, -, -, hdict, -, -⟩ := header_ok_spec a1
  have h0 := PM.circCount_init p.dictSize (opts.memlimit.getD USIZE_MAX) (by omega) hperfect
  have := FinishRun.inv (I := PM.CircCount snk.out.size)
    (fun w b s s' w' h hi => (PM.circCount_appendLiteral h hi).1)
    (fun w l d s s' w' h hi => PM.circCount_appendLz h hi) a4 h0
  exact PM.circCount_finish hfin this

/-- `size_in_effect_exact`, byte-count form (PERFECT sink): exactly `n` bytes were delivered -/
theorem size_in_effect_exact_bytes {rd : Rd} {opts : Options} {snk snk' : Sink} {rd' : Rd}
    {params : LzmaParams} {rd1 : Rd} {n : Nat} (hperfect : snk.script = [])
    (h : lzmaDecompress rd opts snk = (snk', .ok rd'))
    (hh : readHeader rd opts = .ok (params, rd1)) (hn : params.unpackedSize = some n) :
    snk'.out.size = snk.out.size + n := by
  obtain ⟨k, c', hrun, hlen, -, hfin⟩ := size_in_effect_exact h hh hn
  rw [← hlen]
  exact (circ_len_counts_output hperfect hrun hfin).1

/-- with a size in effect the end marker is never consumed: a successful call never saw it -/
theorem size_in_effect_no_marker {rd : Rd} {opts : Options} {snk snk' : Sink} {rd' : Rd}
    {params : LzmaParams} {rd1 : Rd} {n : Nat}
    (h : lzmaDecompress rd opts snk = (snk', .ok rd'))
    (hh : readHeader rd opts = .ok (params, rd1)) (hn : params.unpackedSize = some n) :
    ¬ MarkerSeen rd opts snk := by
  rintro ⟨k2, c2, h2⟩
  obtain ⟨k, c', hrun, -⟩ := size_in_effect_exact h hh hn
  have := (hrun.unique h2).2.1
  cases this

/-! ### no size in effect -/

/-- `no_size_needs_marker_partial` (ARBITRARY sink): with no size in effect, success implies that
the end marker was decoded with `is_finished_ok`, OR the clean-EOF exit was taken (finding K1);
in both cases all input is consumed (`rd'.rem = []`, no pending I/O fault) and the final
`code = 0`.  These are the only two ways. -/
theorem no_size_needs_marker_partial {rd : Rd} {opts : Options} {snk snk' : Sink} {rd' : Rd}
    {params : LzmaParams} {rd1 : Rd}
    (h : lzmaDecompress rd opts snk = (snk', .ok rd'))
    (hh : readHeader rd opts = .ok (params, rd1)) (hn : params.unpackedSize = none) :
    (MarkerSeen rd opts snk ∨ CleanEofExit rd opts snk) ∧
    rd'.rem = [] ∧ rd'.bad = false ∧
    ∃ k e c', LzmaRun rd opts snk k e c' ∧ c'.rd = rd' ∧ c'.rc.code = 0 := by
  obtain ⟨k, e, c', hrun, hrd, hfin, -⟩ := lzmaDecompress_run h
  obtain ⟨p, r1, d, rc, r2, a1, a2, a3, a4⟩ := id hrun
  rw [hh] at a1; cases a1
  have hu := (LzmaDecoder.new_ok a2).2.2.2.1
  have hs := a4.exit_spec
  subst hrd
  cases e with
  | sizeReached => obtain ⟨n, h1, -⟩ := hs; rw [hu.trans hn] at h1; cases h1
  | cleanEof =>
    obtain ⟨hc, hr, hb⟩ := isFinishedOk_iff.1 hs.2
    exact ⟨.inr ⟨k, c', hrun⟩, hr, hb, k, _, c', hrun, rfl, hc⟩
  | marker =>
    obtain ⟨hc, hr, hb⟩ := isFinishedOk_iff.1 hs.2
    exact ⟨.inl ⟨k, c', hrun⟩, hr, hb, k, _, c', hrun, rfl, hc⟩

/-- what `MarkerSeen` means: the LAST symbol decoded was the end marker (`rep0 = 0xFFFF_FFFF`),
after which `code = 0` and the input is exhausted -/
theorem markerSeen_spec {rd : Rd} {opts : Options} {snk : Sink} {k : Nat} {c' : Cfg Circ}
    (h : LzmaRun rd opts snk k .marker c') :
    ∃ (c1 : Cfg Circ) (l : Nat) (probs : Probs),
      runDec true (symTree (c1.s.mkCtx c1.w)) c1.s.probs c1.rc c1.rd =
        .ok (.mtch l 0xFFFFFFFF, probs, c'.rc, c'.rd) ∧
      c'.rc.code = 0 ∧ c'.rd.rem = [] ∧ c'.rd.bad = false ∧ c'.w = c1.w ∧ c'.snk = c1.snk := by
  obtain ⟨p, r1, d, rc, r2, a1, a2, a3, a4⟩ := h
  obtain ⟨j, c1, l, probs, -, -, h1, h2, h3, h4, -⟩ := a4.marker_last rfl
  obtain ⟨hc, hr, hb⟩ := isFinishedOk_iff.1 h2
  exact ⟨c1, l, probs, h1, hc, hr, hb, h3, h4⟩

/-- K1 witness: a 13-byte header with an all-ones size field followed by `00 00 00 00 00` -/
def k1Witness : Bytes :=
  [0x5d, 0, 0, 0x80, 0, 0xff, 0xff, 0xff, 0xff, 0xff, 0xff, 0xff, 0xff, 0, 0, 0, 0, 0]

theorem k1Witness_ok :
    lzmaDecompress (Rd.ofBytes k1Witness) {} {} =
      ({ flushes := 1, lastFlush := true }, .ok (Rd.ofBytes [])) := by
  rfl

/-- executable form of `LzmaRun` (for the concrete witnesses below) -/
def lzmaTrace (rd : Rd) (opts : Options) (snk : Sink) (fuel : Nat) : Option (Nat × Exit × Cfg Circ) :=
  match readHeader rd opts with
  | .ok (params, rd1) =>
    match LzmaDecoder.new params opts.memlimit, RC.new rd1 with
    | .ok dec, .ok (rc, rd2) =>
      finishTrace fuel
        ⟨dec.state, Circ.fromStream params.dictSize (opts.memlimit.getD USIZE_MAX), rc, rd2, snk⟩
    | _, _ => none
  | _ => none

theorem lzmaTrace_sound {rd : Rd} {opts : Options} {snk : Sink} {fuel k : Nat} {e : Exit}
    {c' : Cfg Circ} (h : lzmaTrace rd opts snk fuel = some (k, e, c')) : LzmaRun rd opts snk k e c' := by
  unfold lzmaTrace at h
  split at h
  · rename_i params rd1 hh
    split at h
    · rename_i dec rc rd2 hd hrc
      exact ⟨params, rd1, dec, rc, rd2, hh, hd, hrc,
        finishTrace_sound fuel h (LzmaDecoder.new_ok hd).2.2.1⟩
    · cases h
  · cases h

theorem lzmaTrace_exit {rd : Rd} {opts : Options} {snk : Sink} {fuel k : Nat} {e : Exit}
    (h : (lzmaTrace rd opts snk fuel).map (fun r => (r.1, r.2.1)) = some (k, e)) :
    ∃ c', LzmaRun rd opts snk k e c' := by
  rcases hr : lzmaTrace rd opts snk fuel with _ | ⟨k', e', c'⟩
  · rw [hr] at h; cases h
  · rw [hr] at h
    simp only [Option.map_some, Option.some.injEq, Prod.mk.injEq] at h
    obtain ⟨rfl, rfl⟩ := h
    exact ⟨c', lzmaTrace_sound hr⟩

/-- the K1 witness leaves by the clean-EOF exit at the very first loop test: NO symbol decoded -/
theorem k1Witness_cleanEof : ∃ c', LzmaRun (Rd.ofBytes k1Witness) {} {} 0 .cleanEof c' :=
  lzmaTrace_exit (fuel := 1) (by rfl)

theorem k1Witness_no_size :
    readHeader (Rd.ofBytes k1Witness) {} =
      .ok ({ props := ⟨3, 0, 2⟩, dictSize := 0x800000, unpackedSize := none }, Rd.ofBytes [0, 0, 0, 0, 0]) := by
  rfl

/-- `no_size_needs_marker_false` (finding K1): with no size in effect, success does NOT imply that
the end marker was decoded.  `5d 00 00 80 00 ff×8 00 00 00 00 00` is accepted (output empty,
all 18 bytes consumed) although not a single symbol — let alone the marker — was decoded. -/
theorem no_size_needs_marker_false :
    ¬ ∀ (rd : Rd) (opts : Options) (snk snk' : Sink) (rd' : Rd) (params : LzmaParams) (rd1 : Rd),
        lzmaDecompress rd opts snk = (snk', .ok rd') → readHeader rd opts = .ok (params, rd1) →
        params.unpackedSize = none → MarkerSeen rd opts snk := by
  intro hall
  obtain ⟨k, c2, h2⟩ := hall _ _ _ _ _ _ _ k1Witness_ok k1Witness_no_size rfl
  obtain ⟨c1, h1⟩ := k1Witness_cleanEof
  cases (h1.unique h2).2.1

/-- … in witness form -/
theorem no_size_needs_marker_witness :
    lzmaDecompress (Rd.ofBytes k1Witness) {} {} =
        ({ flushes := 1, lastFlush := true }, .ok (Rd.ofBytes [])) ∧
      ¬ MarkerSeen (Rd.ofBytes k1Witness) {} {} ∧ CleanEofExit (Rd.ofBytes k1Witness) {} {} := by
  obtain ⟨c1, h1⟩ := k1Witness_cleanEof
  refine ⟨k1Witness_ok, ?_, 0, c1, h1⟩
  rintro ⟨k, c2, h2⟩
  cases (h1.unique h2).2.1

/-! ## 4. `Stream::finish` -/

/-- `stream_finish_size`: `Stream::finish` without `allow_incomplete`, in the data state, runs
`process_mode(Finish)` on the staged bytes; success with a size `n` in effect means `len = n`
(ARBITRARY sink; `partial_input_buf` may be non-empty here) -/
theorem stream_finish_size {st : Stream} {rs : RunState} {snk snk' : Sink} {n : Nat}
    (hs : st.state = some (.data rs)) (hai : st.options.allowIncomplete = false)
    (hn : rs.decoder.unpackedSize = some n) (h : st.finish snk = (snk', .ok ())) :
    ∃ s' w' rc' rd' snk1,
      rs.decoder.processMode .finish rs.output { range := rs.range, code := rs.code }
        (Rd.ofBytes st.tmp) snk = (snk1, .ok (s', w', rc', rd')) ∧
      w'.len = n ∧ w'.finish snk1 = (snk', .ok ()) := by
  simp only [Stream.finish, hs, hai, Bool.not_false, if_true] at h
  rw [PM.bind_ok] at h
  obtain ⟨s1, ⟨s', w', rc', rd'⟩, hpm, hfin⟩ := h
  exact ⟨s', w', rc', rd', s1, hpm, processMode_finish_size hpm hn, hfin⟩

/-- the size the stream decoder works with is the size in effect of the header -/
theorem stream_header_size {rd rd' : Rd} {opts : Options} {rs : RunState}
    (h : Stream.readHeader rd opts = .ok (some rs, rd')) :
    ∃ params rd1, readHeader rd opts = .ok (params, rd1) ∧
      rs.decoder.unpackedSize = params.unpackedSize ∧ rs.decoder.partialBuf = [] := by
  unfold Stream.readHeader at h
  split at h
  · rename_i params rd1 hh
    split at h
    · cases h
    · rename_i dec hd
      obtain ⟨h1, h2, -⟩ := DState.new_ok hd
      split at h
      · cases h; exact ⟨params, rd1, hh, h2, h1⟩
      · cases h
  · cases h
  · cases h

/-- … and `read_data` (every later `write`) keeps it -/
theorem stream_readData_keeps_size {rs rs' : RunState} {rd rd' : Rd} {snk snk' : Sink}
    (h : Stream.readData rs rd snk = (snk', .ok (rs', rd'))) :
    rs'.decoder.unpackedSize = rs.decoder.unpackedSize := by
  simp only [Stream.readData, PM.bind_ok, PM.pure_ok_iff] at h
  obtain ⟨s1, ⟨dec, out, rc, rd1⟩, hpm, -, h⟩ := h
  cases h
  exact (processMode_fields hpm).1

/-! ## 5. Non-vacuity: concrete streams (made by liblzma) meeting the hypotheses above

`hdr f` = properties `5a` (lc=0, lp=0, pb=2), dictionary 8 MiB, size field `f`.
`pA`, `pE`, `pABC` are liblzma's LZMA1 payloads (with end marker) for "a", "" and "abcabcabc".
The runs are evaluated by the kernel (`decide +kernel` on decidable observations). -/

def hdr (field : Nat) : Bytes := [0x5a, 0, 0, 0x80, 0] ++ leBytes 8 field
def pA : Bytes := [0, 48, 193, 251, 255, 255, 255, 224, 0, 0, 0]
def pE : Bytes := [0, 131, 255, 251, 255, 255, 192, 0, 0, 0]
def pABC : Bytes := [0, 48, 152, 227, 169, 116, 23, 198, 243, 255, 255, 42, 160, 0, 0]

/-- decidable observation of a result: bytes in the sink, and error or unread input -/
def obs (r : Sink × Except Err Rd) : Bytes × (Err ⊕ Bytes) :=
  (r.1.out.toList, match r.2 with | .ok rd => .inr rd.rem | .error e => .inl e)

/-- the configuration in which `lzma_decompress` enters its loop for `hdr f ++ payload` -/
def cfg0 (size : Option Nat) (payload : Bytes) : Cfg Circ :=
  { s := { props := ⟨0, 0, 2⟩, unpackedSize := size, probs := Probs.init 1 }
    w := Circ.fromStream 0x800000 USIZE_MAX
    rc := { range := 0xFFFFFFFF, code := beVal ((payload.drop 1).take 4) }
    rd := Rd.ofBytes (payload.drop 5)
    snk := {} }

example : readHeader (Rd.ofBytes (hdr 4 ++ pABC)) {} =
      .ok (⟨⟨0, 0, 2⟩, 0x800000, some 4⟩, Rd.ofBytes pABC) ∧
    (LzmaDecoder.new ⟨⟨0, 0, 2⟩, 0x800000, some 4⟩ none).toOption.map (·.state.unpackedSize) = some (some 4) ∧
    RC.new (Rd.ofBytes pABC) = .ok ((cfg0 (some 4) pABC).rc, (cfg0 (some 4) pABC).rd) :=
  ⟨rfl, rfl, rfl⟩

-- `size_in_effect_exact(_bytes)`, `finish_size_exact`, `finish_size_exit`, `size_in_effect_no_marker`:
-- size 9 in effect, "abcabcabc" decoded, the 6 bytes of the end marker are left unread
example : obs (lzmaDecompress (Rd.ofBytes (hdr 9 ++ pABC)) {} {}) =
      ([97, 98, 99, 97, 98, 99, 97, 98, 99], .inr [255, 255, 42, 160, 0, 0]) ∧
    readHeader (Rd.ofBytes (hdr 9 ++ pABC)) {} = .ok (⟨⟨0, 0, 2⟩, 0x800000, some 9⟩, Rd.ofBytes pABC) :=
  ⟨by decide +kernel, rfl⟩

-- the same stream with a provided size overriding the header field (which says 1000)
example : obs (lzmaDecompress (Rd.ofBytes (hdr 1000 ++ pABC))
      { unpackedSize := .readHeaderButUseProvided (some 9) } {}) =
    ([97, 98, 99, 97, 98, 99, 97, 98, 99], .inr [255, 255, 42, 160, 0, 0]) := by decide +kernel

-- `input_exhausted_is_error`: size 1 in effect, but the input ends inside the first symbol
example : (match runDec true (symTree ((cfg0 (some 1) [0, 0, 0, 0, 0]).s.mkCtx (cfg0 (some 1) [0, 0, 0, 0, 0]).w))
        (cfg0 (some 1) [0, 0, 0, 0, 0]).s.probs (cfg0 (some 1) [0, 0, 0, 0, 0]).rc
        (cfg0 (some 1) [0, 0, 0, 0, 0]).rd with
      | .error e => some e
      | .ok _ => none) = some .eof ∧
    obs (lzmaDecompress (Rd.ofBytes (hdr 1 ++ [0, 0, 0, 0, 0])) {} {}) = ([], .inl .eof) :=
  ⟨by decide +kernel, by decide +kernel⟩

-- `marker_before_size_is_error`: size 1 in effect, the first symbol is the end marker
example : ((cfg0 (some 1) pE).s.processNext (cfg0 (some 1) pE).w (cfg0 (some 1) pE).rc
      (cfg0 (some 1) pE).rd {}).2.toOption.map (·.1) = some .finished ∧
    obs (lzmaDecompress (Rd.ofBytes (hdr 1 ++ pE)) {} {}) = ([], .inl .lzma) :=
  ⟨by decide +kernel, by decide +kernel⟩

-- `overshoot_is_error`: size 4 in effect; after 3 literals (`len = 3 < 4`) a match of length 6
-- makes `len = 9 > 4`
example : (∃ c2, FinishSteps (cfg0 (some 4) pABC) 4 c2 ∧ 4 < c2.w.len) ∧
    obs (lzmaDecompress (Rd.ofBytes (hdr 4 ++ pABC)) {} {}) = ([], .inl .lzma) := by
  refine ⟨?_, by decide +kernel⟩
  have h : (stepsTrace 4 (cfg0 (some 4) pABC)).map (·.w.len) = some 9 := by decide +kernel
  rcases hr : stepsTrace 4 (cfg0 (some 4) pABC) with _ | c2
  · rw [hr] at h; cases h
  · rw [hr] at h
    simp only [Option.map_some, Option.some.injEq] at h
    exact ⟨c2, stepsTrace_sound 4 hr, by omega⟩

-- `no_size_needs_marker_partial`: both disjuncts occur.  "a" + end marker: the marker IS seen
-- (2 symbols: literal, marker); the K1 witness: clean-EOF exit (`k1Witness_cleanEof`)
example : MarkerSeen (Rd.ofBytes (hdr 0xFFFFFFFFFFFFFFFF ++ pA)) {} {} ∧
    obs (lzmaDecompress (Rd.ofBytes (hdr 0xFFFFFFFFFFFFFFFF ++ pA)) {} {}) = ([97], .inr []) := by
  refine ⟨?_, by decide +kernel⟩
  obtain ⟨c', h⟩ := lzmaTrace_exit (rd := Rd.ofBytes (hdr 0xFFFFFFFFFFFFFFFF ++ pA)) (opts := {})
    (snk := {}) (fuel := 5) (k := 2) (e := .marker) (by decide +kernel)
  exact ⟨2, c', h⟩

-- `marker_then_bytes_errs`: one byte after the end marker
example : obs (lzmaDecompress (Rd.ofBytes (hdr 0xFFFFFFFFFFFFFFFF ++ pA ++ [0])) {} {}) =
    ([], .inl .lzma) := by decide +kernel

-- `stream_finish_size`: `hdr 1 ++ pA` fed to a fresh stream (the caller's re-submitting loop
-- `Stream.feed`) puts it in the data state with size 1 in effect; `finish` then succeeds with
-- exactly 1 byte delivered
example : ∃ (st : Stream) (rs : RunState) (snk snk' : Sink),
    st.state = some (.data rs) ∧ st.options.allowIncomplete = false ∧
    rs.decoder.unpackedSize = some 1 ∧ st.finish snk = (snk', .ok ()) ∧ snk'.out = #[97] := by
  have h : (match Stream.feed 10 (Stream.newWithOptions {}) (hdr 1 ++ pA) 0 {} with
    | (snk, st, _) =>
      (match st.state with
        | some (.data rs) => rs.decoder.unpackedSize == some 1
        | _ => false) && !st.options.allowIncomplete &&
      (match st.finish snk with
        | (snk', .ok ()) => snk'.out.toList == [97]
        | _ => false)) = true := by decide +kernel
  rcases hw : Stream.feed 10 (Stream.newWithOptions {}) (hdr 1 ++ pA) 0 {} with ⟨snk, st, r⟩
  rw [hw] at h
  simp only [Bool.and_eq_true, Bool.not_eq_true'] at h
  obtain ⟨⟨h1, h2⟩, h3⟩ := h
  rcases hst : st.state with _ | (_ | rs)
  · rw [hst] at h1; cases h1
  · rw [hst] at h1; cases h1
  · rw [hst] at h1
    rcases hf : st.finish snk with ⟨snk', e | u⟩
    · rw [hf] at h3; cases h3
    · rw [hf] at h3
      refine ⟨st, rs, snk, snk', hst, h2, by simpa using h1, hf, ?_⟩
      have : snk'.out.toList = [97] := by simpa using h3
      rw [← Array.toList_inj]; exact this

end Lzma.C08
