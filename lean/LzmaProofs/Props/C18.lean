/-
  C18 — unsupported XZ features are refused explicitly: SHA-256 or an unassigned check id,
  reserved stream-flag bits, a filter other than LZMA2, reserved block-flag bits, a second
  stream / stream padding / any trailing data.  Such a file is rejected with an error; it is never
  partly decoded and reported as success.

  Model: `LzmaModel/Xz.lean`; lemmas and the container grammar: `LzmaProofs/Lemmas/XzInv.lean`.
-/
import LzmaProofs.Lemmas.XzInv
namespace Lzma.C18
open Lzma

/-! ### Check method and stream flags -/

/-- Success implies: the file starts with the magic, and its two stream-flag bytes are `[0, id]`
with `id ∈ {0x00 (none), 0x01 (CRC32), 0x04 (CRC64)}`.  (Any sink.) -/
theorem refuses_unsupported_check (x : Bytes) (s s' : Sink) (rd' : Rd)
    (h : xzDecompress (Rd.ofBytes x) s = (s', .ok rd')) :
    x.take 6 = XZ_MAGIC ∧
    ∃ id : UInt8, (id = 0x00 ∨ id = 0x01 ∨ id = 0x04) ∧ streamFlags x = [0, id] := by
  obtain ⟨⟨check, r1, hh, hsha⟩, -⟩ := xzDecompress_ok_hdr_eof h
  obtain ⟨p1, -, -⟩ := parseStreamHeader_ok hh
  have hx : (Rd.ofBytes x).rem = x := rfl
  rw [hx] at p1
  refine ⟨by rw [p1]; simp [XZ_MAGIC], UInt8.ofNat check.id, ?_, streamFlags_of_header p1⟩
  cases check <;> simp_all [CheckMethod.id]

/-- Contrapositive, with the sink: if the stream flags are anything else — first byte non-zero
(reserved bits), check id 0x0A (SHA-256), any unassigned id, or missing — the result is an error and
the sink is untouched.  (Any sink, any script; no assumption on the rest of the file.) -/
theorem refuses_unsupported_check_error (x : Bytes) (s : Sink)
    (hbad : ¬ ∃ id : UInt8, (id = 0x00 ∨ id = 0x01 ∨ id = 0x04) ∧ streamFlags x = [0, id]) :
    ∃ e, xzDecompress (Rd.ofBytes x) s = (s, .error e) :=
  xzDecompress_bad_flags x s hbad

/-- every file `magic ++ [f0, f1] ++ rest` with `f0 ≠ 0` or `f1 ∉ {0, 1, 4}` is refused
(this covers SHA-256 = 0x0A, the twelve unassigned ids, and all reserved bits) -/
theorem refuses_flag_bytes (f0 f1 : UInt8) (rest : Bytes) (s : Sink)
    (hbad : f0 ≠ 0 ∨ (f1 ≠ 0x00 ∧ f1 ≠ 0x01 ∧ f1 ≠ 0x04)) :
    ∃ e, xzDecompress (Rd.ofBytes (XZ_MAGIC ++ [f0, f1] ++ rest)) s = (s, .error e) := by
  apply xzDecompress_bad_flags
  rintro ⟨id, hid, hf⟩
  have : streamFlags (XZ_MAGIC ++ [f0, f1] ++ rest) = [f0, f1] := by
    simp [streamFlags, XZ_MAGIC]
  rw [this] at hf
  simp only [List.cons.injEq, and_true] at hf
  obtain ⟨rfl, rfl⟩ := hf
  rcases hbad with h | ⟨h0, h1, h4⟩
  · exact h rfl
  · rcases hid with rfl | rfl | rfl <;> contradiction

/-- SHA-256 in particular -/
theorem refuses_sha256 (rest : Bytes) (s : Sink) :
    ∃ e, xzDecompress (Rd.ofBytes (XZ_MAGIC ++ [0x00, 0x0A] ++ rest)) s = (s, .error e) :=
  refuses_flag_bytes 0x00 0x0A rest s (.inr (by decide))

/-! ### Filters and block flags -/

/-- Success implies: in every block header the reserved flag bits are zero, the number of filters
is `(flags & 3) + 1`, and every filter entry has id 0x21 (LZMA2) and exactly one property byte.
(`MbInt enc v`: `enc` is a multibyte-integer encoding, of at most 9 bytes, of `v`; the value of an
encoding is unique: `MbEnc.unique`.) -/
theorem refuses_other_filters (x : Bytes) (s s' : Sink) (rd' : Rd)
    (h : xzDecompress (Rd.ofBytes x) s = (s', .ok rd')) :
    ∃ f : XzFile, x = f.bytes ∧ ∀ b ∈ f.blocks,
      b.flags.toNat &&& 0x3C = 0 ∧
      b.filters.length = (b.flags.toNat &&& 0x03) + 1 ∧
      ∀ fl ∈ b.filters, MbInt fl.idEnc 0x21 ∧ fl.props.length = 1 ∧
        ∀ id, MbEnc fl.idEnc id → id = 0x21 := by
  obtain ⟨f, hv, hx, -⟩ := xzDecompress_ok h
  refine ⟨f, hx, fun b hb => ?_⟩
  obtain ⟨rest, hbv⟩ := BlocksValid.of_mem hv.blocks_valid b hb
  refine ⟨hbv.reserved, hbv.nfilters, fun fl hfl => ?_⟩
  obtain ⟨h1, -, h3⟩ := hbv.filters_ok fl hfl
  exact ⟨h1, h3, fun id hid => MbEnc.unique hid h1.1⟩

/-- At the point of decision: a filter entry whose id field holds any value other than 0x21
makes `read_block_header`'s filter loop fail with the format error … -/
theorem refuses_filter_id {n hs : Nat} {acc : List Filter} {rd r : Rd} {id : Nat} {bs : Bytes}
    (h : getMultibyte rd = .ok (id, bs, r)) (hid : id ≠ 0x21) :
    readFilters (n + 1) hs acc rd = .error .xz :=
  readFilters_rejects_id h hid

/-- … and so do reserved bits in the block flags. -/
theorem refuses_reserved_block_flags {rd r : Rd} {hs : Nat} {flags : UInt8}
    (h : rd.readU8 = .ok (flags, r)) (hres : flags.toNat &&& 0x3C ≠ 0) :
    readBlockHeader rd hs = .error .xz :=
  readBlockHeader_rejects_reserved h hres

/-! ### Trailing data: second stream, stream padding -/

/-- Success implies the reader is at end of input right after the footer magic. (Any sink.) -/
theorem refuses_trailing (x : Bytes) (s s' : Sink) (rd' : Rd)
    (h : xzDecompress (Rd.ofBytes x) s = (s', .ok rd')) : rd'.rem = [] :=
  (xzDecompress_ok_hdr_eof h).2

/-- Prefix determinism: if `x` is accepted then `x ++ t` is rejected for every non-empty `t` —
whatever `t` is (a second stream, stream padding, garbage).  The error is the format error, raised
after the first stream has been decoded (the sink `s'` is the one of the successful run).
(Any sink.) -/
theorem refuses_trailing_data (x t : Bytes) (s s' : Sink) (rd' : Rd) (ht : t ≠ [])
    (h : xzDecompress (Rd.ofBytes x) s = (s', .ok rd')) :
    xzDecompress (Rd.ofBytes (x ++ t)) s = (s', .error .xz) :=
  xzDecompress_trailing ht h

/-- two concatenated streams are rejected -/
theorem refuses_second_stream (x y : Bytes) (s s' t t' : Sink) (rd' rd'' : Rd)
    (hx : xzDecompress (Rd.ofBytes x) s = (s', .ok rd'))
    (hy : xzDecompress (Rd.ofBytes y) t = (t', .ok rd'')) :
    xzDecompress (Rd.ofBytes (x ++ y)) s = (s', .error .xz) := by
  apply xzDecompress_trailing _ hx
  rintro rfl
  obtain ⟨⟨c, r1, hh, -⟩, -⟩ := xzDecompress_ok_hdr_eof hy
  obtain ⟨p1, -, -⟩ := parseStreamHeader_ok hh
  have := congrArg List.length p1
  simp [Rd.ofBytes, XZ_MAGIC] at this

/-- stream padding after a complete stream is rejected -/
theorem refuses_stream_padding (x : Bytes) (n : Nat) (s s' : Sink) (rd' : Rd) (hn : 0 < n)
    (hx : xzDecompress (Rd.ofBytes x) s = (s', .ok rd')) :
    xzDecompress (Rd.ofBytes (x ++ List.replicate n 0)) s = (s', .error .xz) := by
  apply xzDecompress_trailing _ hx
  intro h
  have := congrArg List.length h
  simp at this
  omega

/-! ### Never partly decoded and reported as success -/

/-- Whenever success is reported (any sink), the input is a complete single-stream file using
only supported features, all of it has been consumed, every integrity check holds
(`XzFile.Valid`), and the sink received the whole content — nothing less. -/
theorem never_partly_decoded_as_success (x : Bytes) (s s' : Sink) (rd' : Rd)
    (h : xzDecompress (Rd.ofBytes x) s = (s', .ok rd')) :
    ∃ f : XzFile, f.Valid ∧ x = f.bytes ∧ rd'.rem = [] ∧
      (f.check = .none ∨ f.check = .crc32 ∨ f.check = .crc64) ∧
      (∀ b ∈ f.blocks, b.flags.toNat &&& 0x3C = 0 ∧
        ∀ fl ∈ b.filters, MbInt fl.idEnc 0x21 ∧ fl.props.length = 1) ∧
      s'.out = s.out ++ f.out.toArray := by
  obtain ⟨f, hv, hx, hr, -, ho⟩ := xzDecompress_ok h
  refine ⟨f, hv, hx, hr, hv.check_supported, fun b hb => ?_, ho⟩
  obtain ⟨rest, hbv⟩ := BlocksValid.of_mem hv.blocks_valid b hb
  exact ⟨hbv.reserved, fun fl hfl => ⟨(hbv.filters_ok fl hfl).1, (hbv.filters_ok fl hfl).2.2⟩⟩

/-- The error side (perfect sink): when an error is reported, either nothing at all was written
(the stream header was refused: `s' = s`), or the stream header is valid with a supported check and
the sink holds exactly the contents of a prefix `blocks` of the file's blocks, every one of them
completely validated (`BlocksValid`: header CRC, sizes, padding, check field …) before the point
of failure.  No byte of a block that failed validation ever reaches the sink. -/
theorem error_leaves_validated_prefix (x : Bytes) (s s' : Sink) (e : Err) (hs : s.script = [])
    (h : xzDecompress (Rd.ofBytes x) s = (s', .error e)) :
    s' = s ∨ ∃ (check : CheckMethod) (blocks : List XzBlock) (tail : Bytes),
      x = XZ_MAGIC ++ [0, UInt8.ofNat check.id] ++ leBytes 4 (crc32 [0, UInt8.ofNat check.id]) ++
        blocks.flatMap (·.bytes) ++ tail ∧
      (check = .none ∨ check = .crc32 ∨ check = .crc64) ∧
      BlocksValid check blocks tail ∧
      s'.out = s.out ++ (blocks.flatMap (·.out)).toArray :=
  xzDecompress_error hs h

/-! ### Non-vacuity and concrete refusals (evaluated by the kernel) -/

/-- `xz -C crc64` of `"hello"` -/
def helloCrc64 : Bytes :=
  [0xfd, 0x37, 0x7a, 0x58, 0x5a, 0x00, 0x00, 0x04, 0xe6, 0xd6, 0xb4, 0x46, 0x02, 0x00, 0x21, 0x01,
   0x16, 0x00, 0x00, 0x00, 0x74, 0x2f, 0xe5, 0xa3, 0x01, 0x00, 0x04, 0x68, 0x65, 0x6c, 0x6c, 0x6f,
   0x00, 0x00, 0x00, 0x00, 0xb1, 0x37, 0xb9, 0xdb, 0xe5, 0xda, 0x1e, 0x9b, 0x00, 0x01, 0x1d, 0x05,
   0xb8, 0x2d, 0x80, 0xaf, 0x1f, 0xb6, 0xf3, 0x7d, 0x01, 0x00, 0x00, 0x00, 0x00, 0x04, 0x59, 0x5a]

/-- `xz -C sha256` of `"hello"` -/
def helloSha256 : Bytes :=
  [0xfd, 0x37, 0x7a, 0x58, 0x5a, 0x00, 0x00, 0x0a, 0xe1, 0xfb, 0x0c, 0xa1, 0x02, 0x00, 0x21, 0x01,
   0x16, 0x00, 0x00, 0x00, 0x74, 0x2f, 0xe5, 0xa3, 0x01, 0x00, 0x04, 0x68, 0x65, 0x6c, 0x6c, 0x6f,
   0x00, 0x00, 0x00, 0x00, 0x2c, 0xf2, 0x4d, 0xba, 0x5f, 0xb0, 0xa3, 0x0e, 0x26, 0xe8, 0x3b, 0x2a,
   0xc5, 0xb9, 0xe2, 0x9e, 0x1b, 0x16, 0x1e, 0x5c, 0x1f, 0xa7, 0x42, 0x5e, 0x73, 0x04, 0x33, 0x62,
   0x93, 0x8b, 0x98, 0x24, 0x00, 0x01, 0x35, 0x05, 0x12, 0x83, 0xdd, 0xf2, 0x18, 0x9b, 0x4b, 0x9a,
   0x01, 0x00, 0x00, 0x00, 0x00, 0x0a, 0x59, 0x5a]

/-- `xz --delta=dist=1 --lzma2` of `"hello"` (filter chain delta + LZMA2) -/
def helloDelta : Bytes :=
  [0xfd, 0x37, 0x7a, 0x58, 0x5a, 0x00, 0x00, 0x01, 0x69, 0x22, 0xde, 0x36, 0x02, 0x01, 0x03, 0x01,
   0x00, 0x21, 0x01, 0x0c, 0x03, 0xd9, 0xa6, 0x13, 0x01, 0x00, 0x04, 0x68, 0xfd, 0x07, 0x00, 0x03,
   0x00, 0x00, 0x00, 0x00, 0x86, 0xa6, 0x10, 0x36, 0x00, 0x01, 0x19, 0x05, 0xbc, 0xe8, 0xec, 0xcb,
   0x90, 0x42, 0x99, 0x0d, 0x01, 0x00, 0x00, 0x00, 0x00, 0x01, 0x59, 0x5a]

def isOk (r : Sink × Except Err Rd) : Bool := match r with | (_, .ok _) => true | _ => false
def isXzErrorWithOut (out : Bytes) (r : Sink × Except Err Rd) : Bool :=
  match r with | (s, .error .xz) => s.out.toList == out | _ => false

theorem isOk_elim {r : Sink × Except Err Rd} (h : isOk r = true) : ∃ s' rd', r = (s', .ok rd') := by
  obtain ⟨s, e | a⟩ := r
  · simp [isOk] at h
  · exact ⟨s, a, rfl⟩

/-- the hypotheses are satisfiable: the CRC64 file is accepted -/
example : ∃ s' rd', xzDecompress (Rd.ofBytes helloCrc64) {} = (s', .ok rd') :=
  isOk_elim (by decide +kernel)

/-- the same content with SHA-256 is refused, nothing written -/
example : isXzErrorWithOut [] (xzDecompress (Rd.ofBytes helloSha256) {}) = true := by
  decide +kernel

/-- … which is an instance of the theorem -/
example : ∃ e, xzDecompress (Rd.ofBytes helloSha256) {} = ({}, .error e) :=
  refuses_unsupported_check_error helloSha256 {} (by
    rintro ⟨id, hid, hf⟩
    have : streamFlags helloSha256 = [0x00, 0x0A] := by decide
    rw [this] at hf
    simp only [List.cons.injEq, and_true] at hf
    obtain ⟨-, rfl⟩ := hf
    revert hid; decide)

/-- a delta + LZMA2 filter chain is refused, nothing written -/
example : isXzErrorWithOut [] (xzDecompress (Rd.ofBytes helloDelta) {}) = true := by
  decide +kernel

/-- two streams / stream padding: refused after the first stream's content was written -/
example : isXzErrorWithOut [0x68, 0x65, 0x6c, 0x6c, 0x6f]
    (xzDecompress (Rd.ofBytes (helloCrc64 ++ helloCrc64)) {}) = true := by
  decide +kernel

example : isXzErrorWithOut [0x68, 0x65, 0x6c, 0x6c, 0x6f]
    (xzDecompress (Rd.ofBytes (helloCrc64 ++ [0, 0, 0, 0])) {}) = true := by
  decide +kernel

/-- the same two facts as instances of the theorems -/
example : ∃ s', xzDecompress (Rd.ofBytes (helloCrc64 ++ helloCrc64)) {} = (s', .error .xz) ∧
    xzDecompress (Rd.ofBytes (helloCrc64 ++ List.replicate 4 0)) {} = (s', .error .xz) := by
  obtain ⟨s', rd', h⟩ := isOk_elim (r := xzDecompress (Rd.ofBytes helloCrc64) {}) (by decide +kernel)
  exact ⟨s', refuses_second_stream _ _ _ _ _ _ _ _ h h,
    refuses_stream_padding _ 4 _ _ _ (by decide) h⟩

end Lzma.C18
