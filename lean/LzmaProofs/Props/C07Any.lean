/-
  C07 (extension) — raw decoder objects in ANY state that keeps the table sizes,
  probability bounds and `lc/lp/pb` bounds intact.

  The model's `decompress` returns no decoder object on its error path (the Rust
  `&mut self` is left half-updated there), so `C07.LzmaReach`/`Lzma2Reach` only follow
  successful calls.  What a failed call can leave behind in the Rust object is:
  probabilities adapted by the bits decoded so far (each update keeps a value inside
  `[31, 2017]`), `state`/`rep` of the last complete or half-applied symbol, the expected
  size and up to 20 carried-over input bytes — never a table of a different length and
  never different `lc/lp/pb` except through `reset_state`, which rebuilds the tables
  to match.  All of that is inside `LzmaDecoderInv` / `Lzma2DecoderInv`.  The theorems
  below say that *every* object inside the invariant is safe to use again, whatever
  history (successful, failed, interleaved with resets) produced it; the harness runs
  such histories on the real objects (`unspec` results, panic/hang/allocation oracles).
-/
import LzmaProofs.Props.C07
namespace Lzma
namespace C07Any
open Safety C07

/-- any `LzmaDecoder` object inside the invariant: `decompress` does not panic -/
theorem no_panic_decompress_any_lzma_object {d : LzmaDecoder} (hd : LzmaDecoderInv d) (rd : Rd)
    (snk : Sink) (w : String) : (d.decompress rd snk).2 ≠ .error (.panic w) :=
  ESafe_no_panic (LzmaDecoder_decompress_safe hd rd snk) w

/-- … and terminates -/
theorem terminates_decompress_any_lzma_object {d : LzmaDecoder} (hd : LzmaDecoderInv d) (rd : Rd)
    (snk : Sink) : (d.decompress rd snk).2 ≠ .error .fuel :=
  ESafe_no_fuel (LzmaDecoder_decompress_safe hd rd snk)

/-- … and `reset` does not panic -/
theorem no_panic_reset_any_lzma_object {d : LzmaDecoder} (hd : LzmaDecoderInv d)
    (u : Option (Option Nat)) (w : String) : d.reset u ≠ .error (.panic w) :=
  ESafe_no_panic (LzmaDecoder_reset_safe hd u) w

/-- the invariant is closed under successful `decompress` and under `reset`: every later object
is again covered, for histories of any length -/
theorem inv_closed_lzma {d d' : LzmaDecoder} (hd : LzmaDecoderInv d) :
    (∀ rd snk snk' rd', d.decompress rd snk = (snk', .ok (d', rd')) → LzmaDecoderInv d') ∧
    (∀ u, d.reset u = .ok d' → LzmaDecoderInv d') := by
  constructor
  · intro rd snk snk' rd' h
    have := LzmaDecoder_decompress_safe hd rd snk
    rw [h] at this; exact this.1
  · intro u h
    have := LzmaDecoder_reset_safe hd u
    rw [h] at this; exact this

theorem no_panic_decompress_any_lzma2_object {d : Lzma2Decoder} (hd : Lzma2DecoderInv d) (rd : Rd)
    (snk : Sink) (w : String) : (d.decompress rd snk).2 ≠ .error (.panic w) :=
  ESafe_no_panic (Lzma2Decoder_decompress_safe hd rd snk) w

theorem terminates_decompress_any_lzma2_object {d : Lzma2Decoder} (hd : Lzma2DecoderInv d) (rd : Rd)
    (snk : Sink) : (d.decompress rd snk).2 ≠ .error .fuel :=
  ESafe_no_fuel (Lzma2Decoder_decompress_safe hd rd snk)

theorem no_panic_reset_any_lzma2_object {d : Lzma2Decoder} (hd : Lzma2DecoderInv d) (w : String) :
    d.reset ≠ .error (.panic w) :=
  ESafe_no_panic (Lzma2Decoder_reset_safe hd) w

theorem inv_closed_lzma2 {d d' : Lzma2Decoder} (hd : Lzma2DecoderInv d) :
    (∀ rd snk snk' rd', d.decompress rd snk = (snk', .ok (d', rd')) → Lzma2DecoderInv d') ∧
    (d.reset = .ok d' → Lzma2DecoderInv d') := by
  constructor
  · intro rd snk snk' rd' h
    have := Lzma2Decoder_decompress_safe hd rd snk
    rw [h] at this; exact this.1
  · intro h
    have := Lzma2Decoder_reset_safe hd
    rw [h] at this; exact this

/-- what one adaptive-probability update does to the invariant: any single cell may hold any
value in `[31, 2017]` (the range every `decode_bit` update stays in) -/
theorem inv_after_prob_update {s : DState} (hs : DStateInv s) (i : PIdx) {v : Nat}
    (hv : 31 ≤ v ∧ v ≤ 2017) : DStateInv { s with probs := s.probs.set i v } := by
  obtain ⟨hp, hr⟩ := Probs.set_inv hs.probs hv i
  exact ⟨hp, hs.state, hs.lc, hs.lp, hs.pb, by rw [hr]; exact hs.rows, hs.pbuf⟩

/-- non-vacuity: an object no successful history of a fresh decoder produces at once — half-way
state, repeat distances, a carried-over byte and an adapted probability — is inside the
invariant, so the theorems above apply to it -/
def dirtyDecoder : LzmaDecoder :=
  { sampleDecoder with
    state := { sampleDecoder.state with
      state := 11, rep0 := 0xFFFFFFFF, rep1 := 7, partialBuf := [1, 2, 3]
      probs := sampleDecoder.state.probs.set (.isMatch 0) 31 } }

example : LzmaDecoderInv dirtyDecoder := by
  have h0 : LzmaDecoderInv sampleDecoder := (LzmaReach.new sampleParams none _ (by decide) (by rfl)).inv
  refine ⟨?_, h0.2.1, h0.2.2⟩
  have h1 := inv_after_prob_update h0.1 (.isMatch 0) (v := 31) (by omega)
  exact ⟨h1.probs, by show (11 : Nat) < 12; omega, h1.lc, h1.lp, h1.pb, h1.rows,
    by show ([1, 2, 3] : Bytes).length ≤ 20; decide⟩

end C07Any
end Lzma
