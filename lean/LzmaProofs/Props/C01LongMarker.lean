/-
  C01 / C08 — the end-of-stream marker is recognised by its DISTANCE alone.

  The LZMA format ends a stream without a known size by a "match" whose decoded distance field is
  `0xFFFFFFFF`; the LENGTH field of that match (2..273) is irrelevant.  Real encoders write the
  minimal length, `Sym.eos`; liblzma and lzma-rs accept every length.  (A realistic bug —
  `if len == 0 && rep[0] == 0xFFFF_FFFF` — would only accept the minimal one.)

  `C01.lzma_decode_exact_marker` covers `Sym.eos` only.  Here the general case: for EVERY length
  `2 ≤ len ≤ 273`, `lzma_decompress` on `header (no size in effect) ++
  encodeSyms props dict (prog ++ [Sym.mtch 0x100000000 len])` — the marker written as a match
  with 1-based distance `2^32`, i.e. distance field `2^32 − 1` — succeeds, delivers exactly the
  meaning of `prog`, flushes, and consumes the whole payload; for the three ways in which no size
  is in effect (size field all-ones with `ReadFromHeader`; `ReadHeaderButUseProvided(None)` with
  ANY size field; `UseProvided(None)` on the 5-byte header).  `Sym.eos` is the instance
  `len = 2` (`encodeSyms_eos_eq_long_marker`), so `lzma_decode_exact_marker` follows
  (`lzma_decode_exact_marker_of_long`).
-/
import LzmaProofs.Lemmas.LongMarker
import LzmaProofs.Props.C01Exact
namespace Lzma.C01
open Lzma DState REnc EncRT LongMarker

/-- **End-to-end exactness, end marker with ANY length field.**  For all properties
`lc ≤ 8, lp ≤ 4, pb ≤ 4`, every dictionary field `D < 2^32`, every program `prog` (no end marker)
that is well-formed for the dictionary size in effect `max D 4096`, every marker length
`2 ≤ len ≤ 273`, every perfect sink, with the size field all-ones ("unknown") read from the
header and any memory limit that admits the window: `lzma_decompress` on the header followed by
the reference encoding of `prog` and a match with distance field `0xFFFFFFFF` and length `len`
succeeds, delivers exactly the bytes of `prog`, flushes last, and consumes the whole input.
(Same hypotheses as `lzma_decode_exact_marker`, which is the case `len = 2`.) -/
theorem lzma_decode_exact_long_marker (props : Props) (hp : props.lc ≤ 8 ∧ props.lp ≤ 4 ∧ props.pb ≤ 4)
    (D : Nat) (hD : D < 2 ^ 32) (prog : List Sym) (st : SpecSt)
    (hrun : SpecSt.run (max D 4096) {} prog = some (st, false))
    (len : Nat) (hlen : 2 ≤ len ∧ len ≤ 273) (opts : Options)
    (hopt : opts.unpackedSize = .readFromHeader)
    (hmem : min st.hist.size (max D 4096) ≤ opts.memlimit.getD USIZE_MAX)
    (snk0 : Sink) (hs0 : snk0.script = []) :
    ∃ snk, lzmaDecompress (Rd.ofBytes (lzmaHeader props D (some 0xFFFFFFFFFFFFFFFF) ++
          encodeSyms props (max D 4096) (prog ++ [.mtch 0x100000000 len]))) opts snk0 =
        (snk, .ok { rem := [] }) ∧
      snk.out = snk0.out ++ st.hist ∧ snk.lastFlush = true :=
  decode_exact_long_marker_of_header hp (by omega) prog st hrun len hlen
    (headerReads_fromHeader hp hD (field := 0xFFFFFFFFFFFFFFFF) (by omega) hopt) hmem snk0 hs0

/-- **… with the header size field overridden by "unknown"** (`ReadHeaderButUseProvided(None)`,
13-byte header with ANY size field `field`, even one that contradicts the output). -/
theorem lzma_decode_exact_long_marker_header_ignored (props : Props)
    (hp : props.lc ≤ 8 ∧ props.lp ≤ 4 ∧ props.pb ≤ 4)
    (D : Nat) (hD : D < 2 ^ 32) (field : Nat) (prog : List Sym) (st : SpecSt)
    (hrun : SpecSt.run (max D 4096) {} prog = some (st, false))
    (len : Nat) (hlen : 2 ≤ len ∧ len ≤ 273) (opts : Options)
    (hopt : opts.unpackedSize = .readHeaderButUseProvided none)
    (hmem : min st.hist.size (max D 4096) ≤ opts.memlimit.getD USIZE_MAX)
    (snk0 : Sink) (hs0 : snk0.script = []) :
    ∃ snk, lzmaDecompress (Rd.ofBytes (lzmaHeader props D (some field) ++
          encodeSyms props (max D 4096) (prog ++ [.mtch 0x100000000 len]))) opts snk0 =
        (snk, .ok { rem := [] }) ∧
      snk.out = snk0.out ++ st.hist ∧ snk.lastFlush = true :=
  decode_exact_long_marker_of_header hp (by omega) prog st hrun len hlen
    (headerReads_ignored hp hD field hopt) hmem snk0 hs0

/-- **… with no size supplied** (`UseProvided(None)`, 5-byte header without size field). -/
theorem lzma_decode_exact_long_marker_provided (props : Props)
    (hp : props.lc ≤ 8 ∧ props.lp ≤ 4 ∧ props.pb ≤ 4)
    (D : Nat) (hD : D < 2 ^ 32) (prog : List Sym) (st : SpecSt)
    (hrun : SpecSt.run (max D 4096) {} prog = some (st, false))
    (len : Nat) (hlen : 2 ≤ len ∧ len ≤ 273) (opts : Options)
    (hopt : opts.unpackedSize = .useProvided none)
    (hmem : min st.hist.size (max D 4096) ≤ opts.memlimit.getD USIZE_MAX)
    (snk0 : Sink) (hs0 : snk0.script = []) :
    ∃ snk, lzmaDecompress (Rd.ofBytes (lzmaHeader props D none ++
          encodeSyms props (max D 4096) (prog ++ [.mtch 0x100000000 len]))) opts snk0 =
        (snk, .ok { rem := [] }) ∧
      snk.out = snk0.out ++ st.hist ∧ snk.lastFlush = true :=
  decode_exact_long_marker_of_header hp (by omega) prog st hrun len hlen
    (headerReads_provided hp hD hopt) hmem snk0 hs0

/-- the main theorem in terms of `expand` (default options, empty sink): the sink receives
`expand dict prog` -/
theorem lzma_decode_exact_long_marker_expand (props : Props)
    (hp : props.lc ≤ 8 ∧ props.lp ≤ 4 ∧ props.pb ≤ 4)
    (D : Nat) (hD : D < 2 ^ 32) (prog : List Sym) (out : Bytes)
    (hexp : expand (max D 4096) prog = some out) (hne : Sym.eos ∉ prog)
    (len : Nat) (hlen : 2 ≤ len ∧ len ≤ 273) :
    ∃ snk, lzmaDecompress (Rd.ofBytes (lzmaHeader props D (some 0xFFFFFFFFFFFFFFFF) ++
          encodeSyms props (max D 4096) (prog ++ [.mtch 0x100000000 len]))) {} {} =
        (snk, .ok { rem := [] }) ∧
      snk.out.toList = out ∧ snk.lastFlush = true := by
  unfold expand at hexp
  obtain ⟨⟨st, b⟩, hrun, hout⟩ := Option.map_eq_some_iff.1 hexp
  simp only at hout
  have hb := SpecSt.run_flag prog {} st b hne hrun
  subst hb
  obtain ⟨snk, h1, h2, h3⟩ := lzma_decode_exact_long_marker props hp D hD prog st hrun len hlen {} rfl
    (by show _ ≤ USIZE_MAX; unfold USIZE_MAX U64; omega) {} rfl
  exact ⟨snk, h1, by rw [h2, ← hout]; simp, h3⟩

/-! ## `Sym.eos` is the marker of minimal length -/

/-- **`Sym.eos` is the marker with length 2**: the reference encoder produces the same payload
for `p ++ [eos]` and `p ++ [mtch 2^32 2]` — for every program `p` (well-formed or not), all
properties and every dictionary size. -/
theorem encodeSyms_eos_eq_long_marker (props : Props) (dict : Nat) (p : List Sym) :
    encodeSyms props dict (p ++ [.eos]) = encodeSyms props dict (p ++ [.mtch 0x100000000 2]) :=
  encodeSyms_eos_eq props dict p

/-- hence `lzma_decode_exact_marker` is the instance `len = 2` of `lzma_decode_exact_long_marker` -/
theorem lzma_decode_exact_marker_of_long (props : Props) (hp : props.lc ≤ 8 ∧ props.lp ≤ 4 ∧ props.pb ≤ 4)
    (D : Nat) (hD : D < 2 ^ 32) (prog : List Sym) (st : SpecSt)
    (hrun : SpecSt.run (max D 4096) {} prog = some (st, false)) (opts : Options)
    (hopt : opts.unpackedSize = .readFromHeader)
    (hmem : min st.hist.size (max D 4096) ≤ opts.memlimit.getD USIZE_MAX)
    (snk0 : Sink) (hs0 : snk0.script = []) :
    ∃ snk, lzmaDecompress (Rd.ofBytes (lzmaHeader props D (some 0xFFFFFFFFFFFFFFFF) ++
          encodeSyms props (max D 4096) (prog ++ [.eos]))) opts snk0 = (snk, .ok { rem := [] }) ∧
      snk.out = snk0.out ++ st.hist ∧ snk.lastFlush = true := by
  rw [encodeSyms_eos_eq_long_marker]
  exact lzma_decode_exact_long_marker props hp D hD prog st hrun 2 (by omega) opts hopt hmem snk0 hs0

/-- the marker is ill-formed as a copy in the spec semantics (its distance exceeds `2^32 − 1`):
the program `prog ++ [mtch 2^32 len]` has no `SpecSt.run` meaning, which is why the theorems
above are stated for `prog` and not for the extended program -/
theorem long_marker_step_none (dict : Nat) (st : SpecSt) (len : Nat) :
    SpecSt.step dict st (.mtch 0x100000000 len) = none := by
  simp [SpecSt.step]

/-! ## non-vacuity -/

/-- `lzma_decode_exact_long_marker` applies to `demoProg` (`"abababab"`: a literal, a match, a
short rep, a rep match) with the maximal marker length 273: all hypotheses hold -/
example : ∃ snk, lzmaDecompress (Rd.ofBytes (lzmaHeader ⟨0, 0, 0⟩ 0 (some 0xFFFFFFFFFFFFFFFF) ++
      encodeSyms ⟨0, 0, 0⟩ 4096 (demoProg ++ [.mtch 0x100000000 273]))) {} {} =
      (snk, .ok { rem := [] }) ∧
    snk.out.toList = [0x61, 0x62, 0x61, 0x62, 0x61, 0x62, 0x61, 0x62] ∧ snk.lastFlush = true := by
  obtain ⟨st, hrun, hout⟩ := demoProg_run
  obtain ⟨snk, h1, h2, h3⟩ := lzma_decode_exact_long_marker ⟨0, 0, 0⟩ (by decide) 0 (by decide)
    demoProg st hrun 273 (by omega) {} rfl (by show _ ≤ USIZE_MAX; unfold USIZE_MAX U64; omega) {} rfl
  exact ⟨snk, h1, by rw [h2, ← hout]; simp, h3⟩

/-- … and to the other two option forms (size field 5, contradicting the 8 bytes of output, is
ignored; 5-byte header) -/
example : (∃ snk, lzmaDecompress (Rd.ofBytes (lzmaHeader ⟨0, 0, 0⟩ 0 (some 5) ++
      encodeSyms ⟨0, 0, 0⟩ 4096 (demoProg ++ [.mtch 0x100000000 273])))
      { unpackedSize := .readHeaderButUseProvided none } {} = (snk, .ok { rem := [] }) ∧
    snk.out.toList = [0x61, 0x62, 0x61, 0x62, 0x61, 0x62, 0x61, 0x62]) ∧
    (∃ snk, lzmaDecompress (Rd.ofBytes (lzmaHeader ⟨0, 0, 0⟩ 0 none ++
      encodeSyms ⟨0, 0, 0⟩ 4096 (demoProg ++ [.mtch 0x100000000 273])))
      { unpackedSize := .useProvided none } {} = (snk, .ok { rem := [] }) ∧
    snk.out.toList = [0x61, 0x62, 0x61, 0x62, 0x61, 0x62, 0x61, 0x62]) := by
  obtain ⟨st, hrun, hout⟩ := demoProg_run
  have hm : min st.hist.size (max 0 4096) ≤ (none : Option Nat).getD USIZE_MAX := by
    show _ ≤ USIZE_MAX; unfold USIZE_MAX U64; omega
  constructor
  · obtain ⟨snk, h1, h2, -⟩ := lzma_decode_exact_long_marker_header_ignored ⟨0, 0, 0⟩ (by decide) 0
      (by decide) 5 demoProg st hrun 273 (by omega) { unpackedSize := .readHeaderButUseProvided none }
      rfl hm {} rfl
    exact ⟨snk, h1, by rw [h2, ← hout]; simp⟩
  · obtain ⟨snk, h1, h2, -⟩ := lzma_decode_exact_long_marker_provided ⟨0, 0, 0⟩ (by decide) 0
      (by decide) demoProg st hrun 273 (by omega) { unpackedSize := .useProvided none } rfl hm {} rfl
    exact ⟨snk, h1, by rw [h2, ← hout]; simp⟩

/-- the same instance checked by running the executable model in the kernel: the stream with the
length-273 marker decodes to `"abababab"`, the whole input is consumed — and it is a DIFFERENT
byte string from the one with the minimal marker `Sym.eos`, so the theorem is not about the same
stream in disguise -/
def longMarkerDemo (len : Nat) : Bytes :=
  lzmaHeader ⟨0, 0, 0⟩ 0 (some 0xFFFFFFFFFFFFFFFF) ++
    encodeSyms ⟨0, 0, 0⟩ 4096 (demoProg ++ [.mtch 0x100000000 len])

/-- success with an empty clean reader, and the delivered bytes -/
def decodesAllTo (input : Bytes) (expected : Bytes) : Bool :=
  let d := lzmaDecompress (Rd.ofBytes input) {} {}
  (match d.2 with
    | .ok rd => rd.rem.isEmpty && !rd.bad
    | .error _ => false) && d.1.out.toList == expected && d.1.lastFlush

example : decodesAllTo (longMarkerDemo 273) [0x61, 0x62, 0x61, 0x62, 0x61, 0x62, 0x61, 0x62] = true := by
  decide +kernel

example : decodesAllTo (longMarkerDemo 2) [0x61, 0x62, 0x61, 0x62, 0x61, 0x62, 0x61, 0x62] = true ∧
    decodesAllTo (longMarkerDemo 9) [0x61, 0x62, 0x61, 0x62, 0x61, 0x62, 0x61, 0x62] = true ∧
    decodesAllTo (longMarkerDemo 10) [0x61, 0x62, 0x61, 0x62, 0x61, 0x62, 0x61, 0x62] = true ∧
    decodesAllTo (longMarkerDemo 18) [0x61, 0x62, 0x61, 0x62, 0x61, 0x62, 0x61, 0x62] = true := by
  decide +kernel

example : longMarkerDemo 273 ≠
    lzmaHeader ⟨0, 0, 0⟩ 0 (some 0xFFFFFFFFFFFFFFFF) ++ encodeSyms ⟨0, 0, 0⟩ 4096 (demoProg ++ [.eos]) := by
  decide +kernel

end Lzma.C01
