/-
  C15, second half — progress of the streaming decoder and `finish` with
  `allow_incomplete = true`.

  (`Props/C15.lean` proves that every call only appends to the sink.)  Here:
  for a perfect sink, an input `x` on which the one-shot decoder succeeds, any
  prefix `p` of `x` that contains the header and the five-byte coder preamble
  (`p.length ≥ hdrLen + 5`), and ANY division `cs` of `p` into `write` calls:

  * `finish_incomplete_ok` — feeding never fails, `finish` succeeds, and the
    delivered bytes are a prefix of the one-shot output on `x`;
  * `finish_any_ok` — for ANY input: if no `write` failed and at least `hdrLen + 5`
    bytes were written, `finish` succeeds; `feed_prefix_ok` — feeding a prefix of a
    valid stream never fails;
  * `stream_progress` — the stream state after accepting `p` lies on the one-shot
    trace (`FinishSteps` from the configuration `c₀` after header and
    `RangeDecoder::new`), and its delivered-plus-window history (which `finish`
    then delivers) contains the history of every one-shot configuration `cᵢ`
    whose consumed input satisfies `consumedᵢ + 20 ≤ p.length`
    (`20 = MAX_REQUIRED_INPUT`).  The look-ahead is thus at most 19 input bytes,
    independent of the chunking (the ≤ 8 bytes that may still sit in the header
    staging buffer `tmp` are included in this bound).

  No hypothesis beyond those stated (the 20-byte bound is discharged by `need20`).
-/
import LzmaProofs.Lemmas.StreamProgress
namespace Lzma
namespace C15

open StreamEq DState

/-- **C15: `finish` after any sufficiently long prefix, `allow_incomplete = true`.** -/
theorem finish_incomplete_ok (opts : Options) (hA : opts.allowIncomplete = true)
    (x p q : Bytes) (hx : x = p ++ q) (cs : List Bytes) (hcs : cs.flatten = p)
    (hlen : hdrLen opts.unpackedSize + 5 ≤ p.length) (snk0 : Sink) (hs : snk0.script = [])
    {snkO : Sink} {rdO : Rd} (hone : lzmaDecompress (Rd.ofBytes x) opts snk0 = (snkO, .ok rdO)) :
    ∃ snkS, streamRun opts cs snk0 = (snkS, .ok ()) ∧ APre snkS.out snkO.out := by
  obtain ⟨_, _, _, _, snkS, _, _, _, h1, _, h2, _⟩ :=
    progress_master need20 hA hx hcs hlen hs hone
  exact ⟨snkS, h1, h2⟩

/-- feeding a prefix of a valid stream never fails (any `allow_incomplete`) and leaves the
stream in Data state -/
theorem feed_prefix_ok (opts : Options) (x p q : Bytes) (hx : x = p ++ q) (cs : List Bytes)
    (hcs : cs.flatten = p) (hlen : hdrLen opts.unpackedSize + 5 ≤ p.length) (snk0 : Sink)
    {snkO : Sink} {rdO : Rd} (hone : lzmaDecompress (Rd.ofBytes x) opts snk0 = (snkO, .ok rdO)) :
    ∃ k st' rs', feedAll cs (Stream.newWithOptions opts) snk0 = (k, st', .ok ()) ∧
      st'.state = some (.data rs') := by
  obtain ⟨c₀, _, _, _, hc₀, _, _⟩ := oneshot_run hone
  have hok : OneShotOk opts x snk0 := by
    unfold OneShotOk
    rw [show lzmaDecompress ⟨x, false⟩ opts snk0 = _ from hone]
    rintro ⟨e, he⟩
    simp [toUnit] at he
  obtain ⟨k, st', rs', _, _, h1, _, h2, _⟩ := stream_on_trace need20 hx hcs hlen hok hc₀
  exact ⟨k, st', rs', h1, h2⟩

/-- `finish` after ANY successful feeding — no assumption on what the rest of the stream
would be: perfect sink, `allow_incomplete = true`, no `write` failed, and the input so
far contains the header and the five coder bytes; then `finish` succeeds.  (Together
with `feed_prefix_ok`: finishing after any such prefix of a valid stream succeeds.) -/
theorem finish_any_ok (opts : Options) (hA : opts.allowIncomplete = true) (cs : List Bytes)
    (snk0 k : Sink) (st' : Stream) (hs : snk0.script = [])
    (hfeed : feedAll cs (Stream.newWithOptions opts) snk0 = (k, st', .ok ()))
    (hlen : hdrLen opts.unpackedSize + 5 ≤ cs.flatten.length) :
    ∃ snkS, streamRun opts cs snk0 = (snkS, .ok ()) :=
  StreamEq.finish_any_ok need20 hA hs hfeed hlen

/-- **C15: bounded look-ahead.**  `c₀` is the one-shot configuration after the header
and `RangeDecoder::new`, `cᵢ` the one after `i` symbols (`FinishSteps c₀ i cᵢ`), and
`x.length - cᵢ.rd.rem.length` the input it has consumed.  If that is at most
`p.length - 20`, the history of `cᵢ` is contained in the stream's
delivered-plus-window history after accepting `p` (in whatever chunks), and `finish`
delivers exactly that history. -/
theorem stream_progress (opts : Options) (hA : opts.allowIncomplete = true)
    (x p q : Bytes) (hx : x = p ++ q) (cs : List Bytes) (hcs : cs.flatten = p)
    (hlen : hdrLen opts.unpackedSize + 5 ≤ p.length) (snk0 : Sink) (hs : snk0.script = [])
    {snkO : Sink} {rdO : Rd} (hone : lzmaDecompress (Rd.ofBytes x) opts snk0 = (snkO, .ok rdO))
    {c₀ : Cfg Circ} (hc₀ : startCfg opts x snk0 = some c₀)
    {i : Nat} {ci : Cfg Circ} (hi : FinishSteps c₀ i ci)
    (hcons : (x.length - ci.rd.rem.length) + 20 ≤ p.length) :
    ∃ k st' rs' snkS, feedAll cs (Stream.newWithOptions opts) snk0 = (k, st', .ok ()) ∧
      st'.state = some (.data rs') ∧
      APre (histOut ci.w ci.snk) (histOut rs'.output k) ∧
      streamRun opts cs snk0 = (snkS, .ok ()) ∧ snkS.out = histOut rs'.output k := by
  obtain ⟨c₀', k, st', rs', snkS, hc₀', h1, h2, h3, h4, _, h6⟩ :=
    progress_master need20 hA hx hcs hlen hs hone
  rw [show startCfg opts x snk0 = some c₀ from hc₀] at hc₀'
  simp only [Option.some.injEq] at hc₀'
  subst hc₀'
  exact ⟨k, st', rs', snkS, h1, h2, h6 i ci hi hcons, h3, h4⟩

/-- the start configuration exists and the one-shot run is a trace from it: `c₀` and the
`cᵢ` of `stream_progress` are those of the one-shot decoder itself -/
theorem oneshot_trace (opts : Options) (x : Bytes) (snk0 : Sink) {snkO : Sink} {rdO : Rd}
    (hone : lzmaDecompress (Rd.ofBytes x) opts snk0 = (snkO, .ok rdO)) :
    ∃ c₀ k e cF, startCfg opts x snk0 = some c₀ ∧ FinishRun c₀ k e cF ∧
      cF.w.finish cF.snk = (snkO, .ok ()) :=
  oneshot_run hone

/-- with the history invariant, `histOut` (sink bytes followed by the unflushed part of the
window) is the full output history, and `finish` delivers exactly it -/
theorem histOut_is_history {base : Array UInt8} {w : Circ} {snk : Sink} {H : Bytes}
    (h : HistInv base w snk H) :
    ∃ s', w.finish snk = (s', .ok ()) ∧ s'.out = base ++ H.toArray ∧ histOut w snk = base ++ H.toArray :=
  finish_hist h

/-! ## non-vacuity: the `"aaaa"` stream, every prefix length 18 … 25 -/

def aaaaBytes : Bytes :=
  [0, 0, 16, 0, 0, 255, 255, 255, 255, 255, 255, 255, 255, 0, 48, 233, 119, 239, 255, 255, 255, 225, 0, 0, 0]

def optsAI : Options := { allowIncomplete := true }

def outIs (exp : Array UInt8) (r : Sink × Except Err Unit) : Bool :=
  match r.2 with
  | .ok _ => r.1.out == exp
  | .error _ => false

def isOk {α : Type} (r : Sink × Except Err α) : Bool :=
  match r.2 with
  | .ok _ => true
  | .error _ => false

/-- the hypotheses are satisfiable: the one-shot decoder succeeds on the stream -/
example : isOk (lzmaDecompress (Rd.ofBytes aaaaBytes) optsAI {}) = true := by decide +kernel
example : optsAI.allowIncomplete = true ∧ hdrLen optsAI.unpackedSize + 5 = 18 := by decide

/-- every prefix of length 18 … 25, as one chunk and byte by byte: `finish` succeeds and
delivers a prefix of `"aaaa"` (after 2 payload bytes everything is already out) -/
example : outIs #[] (streamRun optsAI [aaaaBytes.take 18] {}) = true := by decide +kernel
example : outIs #[97] (streamRun optsAI [aaaaBytes.take 19] {}) = true := by decide +kernel
example : outIs #[97, 97, 97, 97] (streamRun optsAI [aaaaBytes.take 20] {}) = true := by decide +kernel
example : outIs #[97, 97, 97, 97] (streamRun optsAI [aaaaBytes.take 21] {}) = true := by decide +kernel
example : outIs #[97, 97, 97, 97] (streamRun optsAI [aaaaBytes.take 22] {}) = true := by decide +kernel
example : outIs #[97, 97, 97, 97] (streamRun optsAI [aaaaBytes.take 23] {}) = true := by decide +kernel
example : outIs #[97, 97, 97, 97] (streamRun optsAI [aaaaBytes.take 24] {}) = true := by decide +kernel
example : outIs #[97, 97, 97, 97] (streamRun optsAI [aaaaBytes.take 25] {}) = true := by decide +kernel
example : outIs #[] (streamRun optsAI ((aaaaBytes.take 18).map fun b => [b]) {}) = true := by decide +kernel
example : outIs #[97] (streamRun optsAI ((aaaaBytes.take 19).map fun b => [b]) {}) = true := by decide +kernel
example : outIs #[97, 97, 97, 97] (streamRun optsAI ((aaaaBytes.take 20).map fun b => [b]) {}) = true := by
  decide +kernel
example : outIs #[97, 97, 97, 97] (streamRun optsAI ((aaaaBytes.take 25).map fun b => [b]) {}) = true := by
  decide +kernel
/-- the length bound is needed: a shorter prefix makes `finish` fail -/
example : isOk (streamRun optsAI [aaaaBytes.take 17] {}) = false := by decide +kernel

end C15
end Lzma
