/-
  C07 — decoders are total: no panic, no hang.

  For EVERY input byte string (and reader fault flag), every `Options`
  (unpacked-size mode, memlimit, allow_incomplete), and every scripted sink:

  * `no_panic_*`   : the result is never `.error (.panic _)` — the model returns that
                     exactly where a checked Rust build would panic (index out of bounds,
                     `+ - *` overflow, remainder by zero, `assert!`).
  * `terminates_*` : the result is never `.error .fuel` — the model's loops take fuel and
                     return `.fuel` when the bound is hit; so the bound (`loopFuel`,
                     `rem.length + 1`) is never hit and the Rust loops terminate.

  The proofs are in `LzmaProofs/Lemmas/Safety*.lean`:
  `Safety` (combinators `ESafe`/`MSafe`, reader), `SafetyRC` (range decoder, measure `mu`),
  `SafetyTree` (`ProbsInv`, `TreeSafe`, `runDec_safe`), `SafetySym` (`symTree_safe`),
  `SafetyWindow` (`CircSafe`, `LzBufSafe`), `SafetyLoop` (`DStateInv`, `processLoop_safe`),
  `SafetyLzma`, `SafetyLzma2`, `SafetyXz`, `SafetyStream`.

  What CANNOT be proved in this model (outside its vocabulary):
  * allocator behaviour (`Vec` growth failing, OOM aborts) and memory use beyond the sizes
    of the model's data structures (see `memory_bounds_*` below for those sizes);
  * stack depth (the Rust code is iterative; the model does not represent the stack);
  * wall-clock time: termination is proved with the explicit bound
    `(input bytes + 1) * 2^32 + 1` loop iterations per `process_mode` call, which is a
    bound on iterations, not on time;
  * `usize` overflow of the produced-bytes counters `len`/`cursor` (needs 2^64 bytes of output;
    the model uses unbounded `Nat` for them, as stated in `LzmaModel/Window.lean`);
  * re-using a raw `LzmaDecoder`/`Lzma2Decoder` AFTER a `decompress` call that returned `Err`:
    the model's `decompress` returns no decoder object on the error path (the Rust
    `&mut self` is left half-updated), so the reachable-object theorems below only follow
    successful calls.  (`Stream` is covered also after a failed `write`: state `none`.)
-/
import LzmaProofs.Lemmas.SafetyXz
import LzmaProofs.Lemmas.SafetyStream
namespace Lzma
namespace C07
open Safety

theorem ESafe_no_panic {P : α → Prop} {r : Except Err α} (h : ESafe P r) (w : String) :
    r ≠ .error (.panic w) := h.ne_panic w

theorem ESafe_no_fuel {P : α → Prop} {r : Except Err α} (h : ESafe P r) : r ≠ .error .fuel :=
  h.ne_fuel

/-! ## one-shot entry points -/

/-- `lzma_decompress_with_options` never panics. -/
theorem no_panic_lzma (rd : Rd) (opts : Options) (snk : Sink) (w : String) :
    (lzmaDecompress rd opts snk).2 ≠ .error (.panic w) :=
  ESafe_no_panic (lzmaDecompress_safe rd opts snk) w

/-- `lzma_decompress_with_options` terminates (the symbol loop's fuel is never exhausted). -/
theorem terminates_lzma (rd : Rd) (opts : Options) (snk : Sink) :
    (lzmaDecompress rd opts snk).2 ≠ .error .fuel :=
  ESafe_no_fuel (lzmaDecompress_safe rd opts snk)

/-- `lzma2_decompress` never panics. -/
theorem no_panic_lzma2 (rd : Rd) (snk : Sink) (w : String) :
    (lzma2Decompress rd snk).2 ≠ .error (.panic w) :=
  ESafe_no_panic (lzma2Decompress_safe rd snk) w

/-- `lzma2_decompress` terminates (chunk loop and symbol loop). -/
theorem terminates_lzma2 (rd : Rd) (snk : Sink) :
    (lzma2Decompress rd snk).2 ≠ .error .fuel :=
  ESafe_no_fuel (lzma2Decompress_safe rd snk)

/-- `xz_decompress` never panics. -/
theorem no_panic_xz (rd : Rd) (snk : Sink) (w : String) :
    (xzDecompress rd snk).2 ≠ .error (.panic w) :=
  ESafe_no_panic (xzDecompress_safe rd snk) w

/-- `xz_decompress` terminates (block loop, chunk loop, symbol loop, multibyte integers). -/
theorem terminates_xz (rd : Rd) (snk : Sink) :
    (xzDecompress rd snk).2 ≠ .error .fuel :=
  ESafe_no_fuel (xzDecompress_safe rd snk)

/-- the decoders never read backwards: the reader returned on success is a shorter one -/
theorem lzma_consumes (rd : Rd) (opts : Options) (snk : Sink) (rd' : Rd)
    (h : (lzmaDecompress rd opts snk).2 = .ok rd') : rd'.rem.length ≤ rd.rem.length := by
  have := lzmaDecompress_safe rd opts snk; rw [h] at this; exact this

/-! ## raw decoders (`raw_decoder` feature) -/

/-- `LzmaDecoder` objects obtainable through the public API: `new` with valid properties,
then any sequence of `reset` and successful `decompress` calls (any input, any sink). -/
inductive LzmaReach : LzmaDecoder → Prop
  | new (params : LzmaParams) (memlimit : Option Nat) (d : LzmaDecoder)
      (hp : params.props.lc ≤ 8 ∧ params.props.lp ≤ 4 ∧ params.props.pb ≤ 4)
      (h : LzmaDecoder.new params memlimit = .ok d) : LzmaReach d
  | reset (d : LzmaDecoder) (u : Option (Option Nat)) (d' : LzmaDecoder)
      (hd : LzmaReach d) (h : d.reset u = .ok d') : LzmaReach d'
  | decompress (d : LzmaDecoder) (rd : Rd) (snk snk' : Sink) (d' : LzmaDecoder) (rd' : Rd)
      (hd : LzmaReach d) (h : d.decompress rd snk = (snk', .ok (d', rd'))) : LzmaReach d'

theorem LzmaReach.inv {d : LzmaDecoder} (h : LzmaReach d) : LzmaDecoderInv d := by
  induction h with
  | new params memlimit d hp h =>
    have := LzmaDecoder_new_safe (params := params) hp memlimit
    rw [h] at this; exact this
  | reset d u d' _ h ih =>
    have := LzmaDecoder_reset_safe ih u
    rw [h] at this; exact this
  | decompress d rd snk snk' d' rd' _ h ih =>
    have := LzmaDecoder_decompress_safe ih rd snk
    rw [h] at this; exact this.1

/-- `LzmaDecoder::new` with valid `lc/lp/pb` never panics (any dictionary size: `0` is
rejected with an ordinary error by the fixed code). -/
theorem no_panic_LzmaDecoder_new (params : LzmaParams) (memlimit : Option Nat)
    (hp : params.props.lc ≤ 8 ∧ params.props.lp ≤ 4 ∧ params.props.pb ≤ 4) (w : String) :
    LzmaDecoder.new params memlimit ≠ .error (.panic w) :=
  ESafe_no_panic (LzmaDecoder_new_safe hp memlimit) w

/-- The hypothesis on the properties is needed: `LzmaProperties::validate` is an `assert!`. -/
example : LzmaDecoder.new { props := { lc := 9, lp := 0, pb := 0 }, dictSize := 4096, unpackedSize := none } none
    = .error (.panic "validate") := rfl

theorem no_panic_LzmaDecoder_reset {d : LzmaDecoder} (hd : LzmaReach d) (u : Option (Option Nat))
    (w : String) : d.reset u ≠ .error (.panic w) :=
  ESafe_no_panic (LzmaDecoder_reset_safe hd.inv u) w

theorem no_panic_LzmaDecoder_decompress {d : LzmaDecoder} (hd : LzmaReach d) (rd : Rd) (snk : Sink)
    (w : String) : (d.decompress rd snk).2 ≠ .error (.panic w) :=
  ESafe_no_panic (LzmaDecoder_decompress_safe hd.inv rd snk) w

theorem terminates_LzmaDecoder_decompress {d : LzmaDecoder} (hd : LzmaReach d) (rd : Rd) (snk : Sink) :
    (d.decompress rd snk).2 ≠ .error .fuel :=
  ESafe_no_fuel (LzmaDecoder_decompress_safe hd.inv rd snk)

/-- `Lzma2Decoder` objects obtainable through the public API -/
inductive Lzma2Reach : Lzma2Decoder → Prop
  | new (d : Lzma2Decoder) (h : Lzma2Decoder.new = .ok d) : Lzma2Reach d
  | reset (d d' : Lzma2Decoder) (hd : Lzma2Reach d) (h : d.reset = .ok d') : Lzma2Reach d'
  | decompress (d : Lzma2Decoder) (rd : Rd) (snk snk' : Sink) (d' : Lzma2Decoder) (rd' : Rd)
      (hd : Lzma2Reach d) (h : d.decompress rd snk = (snk', .ok (d', rd'))) : Lzma2Reach d'

theorem Lzma2Reach.inv {d : Lzma2Decoder} (h : Lzma2Reach d) : Lzma2DecoderInv d := by
  induction h with
  | new d h =>
    have := Lzma2Decoder_new_safe
    rw [h] at this; exact this
  | reset d d' _ h ih =>
    have := Lzma2Decoder_reset_safe ih
    rw [h] at this; exact this
  | decompress d rd snk snk' d' rd' _ h ih =>
    have := Lzma2Decoder_decompress_safe ih rd snk
    rw [h] at this; exact this.1

theorem no_panic_Lzma2Decoder_new (w : String) : Lzma2Decoder.new ≠ .error (.panic w) :=
  ESafe_no_panic Lzma2Decoder_new_safe w

theorem no_panic_Lzma2Decoder_reset {d : Lzma2Decoder} (hd : Lzma2Reach d) (w : String) :
    d.reset ≠ .error (.panic w) :=
  ESafe_no_panic (Lzma2Decoder_reset_safe hd.inv) w

theorem no_panic_Lzma2Decoder_decompress {d : Lzma2Decoder} (hd : Lzma2Reach d) (rd : Rd) (snk : Sink)
    (w : String) : (d.decompress rd snk).2 ≠ .error (.panic w) :=
  ESafe_no_panic (Lzma2Decoder_decompress_safe hd.inv rd snk) w

theorem terminates_Lzma2Decoder_decompress {d : Lzma2Decoder} (hd : Lzma2Reach d) (rd : Rd) (snk : Sink) :
    (d.decompress rd snk).2 ≠ .error .fuel :=
  ESafe_no_fuel (Lzma2Decoder_decompress_safe hd.inv rd snk)

/-! ## the streaming decoder, for every call sequence

`Safety.Reachable opts st`: `st` is `Stream::new_with_options(opts)` or the stream left
behind by `write` (successful or failed) on a reachable stream, for any data and sink. -/

theorem no_panic_stream_write {opts : Options} {st : Stream} (h : Reachable opts st)
    (data : Bytes) (snk : Sink) (w : String) : (st.write data snk).2 ≠ .error (.panic w) :=
  ESafe_no_panic (Stream_write_safe h.inv data snk) w

theorem terminates_stream_write {opts : Options} {st : Stream} (h : Reachable opts st)
    (data : Bytes) (snk : Sink) : (st.write data snk).2 ≠ .error .fuel :=
  ESafe_no_fuel (Stream_write_safe h.inv data snk)

theorem no_panic_stream_flush (st : Stream) (snk : Sink) (w : String) :
    (st.flush snk).2 ≠ .error (.panic w) :=
  ESafe_no_panic (Stream_flush_safe st snk) w

theorem terminates_stream_flush (st : Stream) (snk : Sink) : (st.flush snk).2 ≠ .error .fuel :=
  ESafe_no_fuel (Stream_flush_safe st snk)

theorem no_panic_stream_finish {opts : Options} {st : Stream} (h : Reachable opts st)
    (snk : Sink) (w : String) : (st.finish snk).2 ≠ .error (.panic w) :=
  ESafe_no_panic (Stream_finish_safe h.inv snk) w

theorem terminates_stream_finish {opts : Options} {st : Stream} (h : Reachable opts st)
    (snk : Sink) : (st.finish snk).2 ≠ .error .fuel :=
  ESafe_no_fuel (Stream_finish_safe h.inv snk)

/-- the re-submitting caller loop: never a panic / fuel error out of any `write`, for any
number of rounds -/
theorem no_panic_stream_feed {opts : Options} {st : Stream} (h : Reachable opts st)
    (fuel : Nat) (data : Bytes) (acc : Nat) (snk : Sink) (w : String) :
    (st.feed fuel data acc snk).2.2 ≠ .error (.panic w) :=
  ESafe_no_panic (Stream_feed_safe fuel st data acc snk h.inv).2 w

theorem terminates_stream_feed {opts : Options} {st : Stream} (h : Reachable opts st)
    (fuel : Nat) (data : Bytes) (acc : Nat) (snk : Sink) :
    (st.feed fuel data acc snk).2.2 ≠ .error .fuel :=
  ESafe_no_fuel (Stream_feed_safe fuel st data acc snk h.inv).2

/-! ## memory bounds (sizes of the model's data structures only)

The invariants that the safety proofs carry through every iteration of the symbol loop
(`DStateInv`, `CircSafe`, `AccumInv`) bound the sizes of all growing data structures. -/

/-- Probability tables: the literal table has `2^(lc+lp) * 0x300 ≤ 3145728` entries, all
other tables have their fixed size — in every decoder state the invariant holds for. -/
theorem memory_bounds_probs {s : DState} (h : DStateInv s) :
    s.probs.lit.size = 2 ^ (s.props.lc + s.props.lp) * 0x300 ∧ s.probs.lit.size ≤ 3145728 ∧
    s.probs.posSlot.size = 256 ∧ s.probs.align.size = 16 ∧ s.probs.posDec.size = 115 ∧
    s.probs.isMatch.size = 192 ∧ s.probs.isRep.size = 12 ∧ s.probs.isRepG0.size = 12 ∧
    s.probs.isRepG1.size = 12 ∧ s.probs.isRepG2.size = 12 ∧ s.probs.isRep0Long.size = 192 ∧
    s.probs.len.low.size = 128 ∧ s.probs.len.mid.size = 128 ∧ s.probs.len.high.size = 256 ∧
    s.probs.repLen.low.size = 128 ∧ s.probs.repLen.mid.size = 128 ∧ s.probs.repLen.high.size = 256 ∧
    s.partialBuf.length ≤ 20 := by
  have hsz := h.probs.lit.1
  rw [h.rows, Nat.shiftLeft_eq, Nat.one_mul] at hsz
  have hle : 2 ^ (s.props.lc + s.props.lp) ≤ 2 ^ 12 :=
    Nat.pow_le_pow_right (by omega) (by have := h.lc; have := h.lp; omega)
  refine ⟨hsz, by omega, h.probs.posSlot.1, h.probs.align.1, h.probs.posDec.1, h.probs.isMatch.1,
    h.probs.isRep.1, h.probs.isRepG0.1, h.probs.isRepG1.1, h.probs.isRepG2.1, h.probs.isRep0Long.1,
    h.probs.len.low.1, h.probs.len.mid.1, h.probs.len.high.1, h.probs.repLen.low.1,
    h.probs.repLen.mid.1, h.probs.repLen.high.1, h.pbuf⟩

/-- Circular window: the lazily grown buffer is never larger than the dictionary size, the
number of bytes produced so far, or the memory limit. -/
theorem memory_bounds_window {w : Circ} (h : CircSafe w) :
    w.buf.size ≤ w.dictSize ∧ w.buf.size ≤ w.len ∧ w.buf.size ≤ w.memlimit :=
  ⟨h.2.2.2.1, h.2.2.2.2.1, h.2.2.2.2.2⟩

/-- The symbol loop keeps these bounds (circular window), from any state where they hold. -/
theorem memory_bounds_processMode (mode : DState.Mode) {s : DState} {w : Circ} {rc : RC} (rd : Rd)
    (snk : Sink) (hs : DStateInv s) (hw : CircSafe w) (hrc : RCInv rc)
    {s' : DState} {w' : Circ} {rc' : RC} {rd' : Rd}
    (h : (s.processMode mode w rc rd snk).2 = .ok (s', w', rc', rd')) :
    DStateInv s' ∧ CircSafe w' := by
  have := processMode_safe (ω := Circ) mode rd hs hw hrc snk
  rw [h] at this
  exact ⟨this.1, this.2.1⟩

/-- Accumulating window (LZMA2): the buffer holds exactly the bytes produced since the last
reset, through the whole chunk loop. -/
theorem memory_bounds_accum (fuel : Nat) {d : Lzma2Decoder} (accum : Accum) (rd : Rd) (snk : Sink)
    (hd : Lzma2Reach d) (ha : accum.buf.size = accum.len) (hf : rd.rem.length < fuel)
    {d' : Lzma2Decoder} {accum' : Accum} {rd' : Rd}
    (h : (Lzma2Decoder.chunkLoop fuel d accum rd snk).2 = .ok (d', accum', rd')) :
    accum'.buf.size = accum'.len := by
  have := chunkLoop_safe fuel d accum rd hd.inv ha hf snk
  rw [h] at this
  exact this.2.1

/-- A stream in the `Data` state, after any call sequence: window and tables are bounded. -/
theorem memory_bounds_stream {opts : Options} {st : Stream} {rs : RunState}
    (h : Reachable opts st) (hst : st.state = some (.data rs)) :
    rs.output.buf.size ≤ rs.output.dictSize ∧ rs.output.buf.size ≤ rs.output.len ∧
      rs.output.buf.size ≤ rs.output.memlimit ∧ rs.decoder.probs.lit.size ≤ 3145728 ∧
      st.tmp.length ≤ 18 := by
  have hi := h.inv
  unfold StreamInv at hi
  rw [hst] at hi
  have := memory_bounds_window hi.2.2
  exact ⟨this.1, this.2.1, this.2.2, (memory_bounds_probs hi.1).2.1, h.tmp_le⟩

/-! ## non-vacuity: concrete runs (checked by kernel evaluation of the model)

The theorems above have no hypotheses on the input, so they cannot be vacuous; the
examples show that the statements range over runs that really decode data, runs that
end in an ordinary error, and that the reachability hypotheses are satisfiable. -/

/-- `"abcabcabc"` as `.lzma` (lc = lp = pb = 0, dict 4096, end marker), made by liblzma -/
def lzmaSample : Bytes :=
  [0, 0, 16, 0, 0, 255, 255, 255, 255, 255, 255, 255, 255, 0, 48, 153, 171, 216, 139, 1, 114, 199,
   255, 255, 50, 64, 0, 0]

/-- `"abcabcabc" * 3` as a raw LZMA2 stream, made by liblzma -/
def lzma2Sample : Bytes := [224, 0, 26, 0, 9, 0, 0, 48, 153, 171, 223, 5, 233, 117, 0, 0, 0]

/-- the same as `.xz` with CRC32, made by liblzma -/
def xzSample : Bytes :=
  [253, 55, 122, 88, 90, 0, 0, 1, 105, 34, 222, 54, 2, 0, 33, 1, 0, 0, 0, 0, 55, 39, 151, 214,
   224, 0, 26, 0, 9, 0, 0, 48, 153, 171, 223, 5, 233, 117, 0, 0, 0, 0, 0, 0, 209, 142, 246, 168,
   0, 1, 33, 27, 36, 105, 124, 38, 144, 66, 153, 13, 1, 0, 0, 0, 0, 1, 89, 90]

def abc : Bytes := [97, 98, 99]

example : let r := lzmaDecompress (Rd.ofBytes lzmaSample) {} {}
    r.2.isOk = true ∧ r.1.out.toList = abc ++ abc ++ abc := by decide +kernel

example : let r := lzma2Decompress (Rd.ofBytes lzma2Sample) {}
    r.2.isOk = true ∧ r.1.out.toList = abc ++ abc ++ abc ++ abc ++ abc ++ abc ++ abc ++ abc ++ abc := by
  decide +kernel

example : let r := xzDecompress (Rd.ofBytes xzSample) {}
    r.2.isOk = true ∧ r.1.out.toList = abc ++ abc ++ abc ++ abc ++ abc ++ abc ++ abc ++ abc ++ abc := by
  decide +kernel

/-- ordinary errors do occur (truncated input; a sink that fails; a memlimit of 2 bytes) -/
example : ((lzmaDecompress (Rd.ofBytes (lzmaSample.take 20)) {} {}).2.toOption.isNone) = true := by
  decide +kernel
example : ((lzmaDecompress (Rd.ofBytes lzmaSample) {} { script := [.fail] }).2.toOption.isNone) = true := by
  decide +kernel
example : ((lzmaDecompress (Rd.ofBytes lzmaSample) { memlimit := some 2 } {}).2.toOption.isNone) = true := by
  decide +kernel

/-- reachable raw decoders exist, and `decompress` on one decodes the sample -/
def sampleParams : LzmaParams :=
  { props := { lc := 0, lp := 0, pb := 0 }, dictSize := 4096, unpackedSize := none }

def sampleDecoder : LzmaDecoder := ((LzmaDecoder.new sampleParams none).toOption.getD default)

example : LzmaReach sampleDecoder :=
  LzmaReach.new sampleParams none _ (by decide) (by rfl)

example : let r := sampleDecoder.decompress (Rd.ofBytes (lzmaSample.drop 13)) {}
    r.2.isOk = true ∧ r.1.out.toList = abc ++ abc ++ abc := by decide +kernel

example : Lzma2Reach ((Lzma2Decoder.new).toOption.getD default) := Lzma2Reach.new _ (by rfl)

/-- a reachable stream in the `Data` state after a fragmented feed, whose `finish` succeeds -/
example : let opts : Options := {}
    let s1 := (Stream.newWithOptions opts).writeS (lzmaSample.take 7) {}
    let s2 := s1.2.1.feed 10 (lzmaSample.drop 7) 0 s1.1
    Reachable opts s2.2.1 ∧ s2.2.2.isOk = true ∧ (s2.2.1.finish s2.1).2.isOk = true ∧
      (s2.2.1.finish s2.1).1.out.toList = abc ++ abc ++ abc := by
  refine ⟨Reachable.feed _ _ _ _ (Reachable.write Reachable.new _ _), ?_⟩
  decide +kernel

end C07
end Lzma
