/-
  C15 — streaming output is always a prefix of the final output (core part).

  Proved here, for EVERY stream state, every option set, every sink script and
  every sequence of `write` / `flush` calls followed by `finish`: each call only
  APPENDS to the bytes the sink holds, so what the sink holds at any moment is a
  prefix of what it holds at any later moment — in particular of what it holds
  after `finish`.  Together with C05 (`finish` after all input delivers the
  one-shot decoder's output) this is "a prefix of what the complete stream
  decodes to".  The quantitative half of the property (output keeps up with the
  input up to a bounded look-ahead) is not proved here; it is evaluated on the
  implementation against the model's per-symbol trace by `bin/check C15`.
-/
import LzmaProofs.Lemmas.Sink
namespace Lzma.C15
open Lzma

/-- the calls a user can make on a `Stream` before `finish` -/
inductive Call where
  | write (data : Bytes)
  | flush

/-- one call as a transition of (stream, sink) -/
def step (st : Stream) (snk : Sink) : Call → Stream × Sink
  | .write data => let r := st.writeS data snk; (r.2.1, r.1)
  | .flush => (st, (st.flush snk).1)

/-- the sinks observed after each call of a sequence (the initial one first) -/
def trace : List Call → Stream → Sink → List Sink
  | [], _, snk => [snk]
  | c :: cs, st, snk => snk :: trace cs (step st snk c).1 (step st snk c).2

theorem write_only_appends (st : Stream) (data : Bytes) (snk : Sink) :
    APre snk.out (st.writeS data snk).1.out := by
  have h := (OM.streamWrite st data).mono snk
  unfold Stream.writeS
  split <;> rename_i heq <;> simpa [heq] using h

theorem flush_only_appends (st : Stream) (snk : Sink) : APre snk.out (st.flush snk).1.out :=
  (OM.streamFlush st).mono snk

theorem finish_only_appends (st : Stream) (snk : Sink) : APre snk.out (st.finish snk).1.out :=
  (OM.streamFinish st).mono snk

theorem step_only_appends (st : Stream) (snk : Sink) (c : Call) : APre snk.out (step st snk c).2.out := by
  cases c with
  | write data => exact write_only_appends st data snk
  | flush => exact flush_only_appends st snk

/-- **Streaming output is monotone**: in the trace of any call sequence, the
bytes held at position `i` are a prefix of the bytes held at every later
position `j`. -/
theorem stream_sink_prefix (cs : List Call) (st : Stream) (snk : Sink) :
    ∀ i j (hi : i < (trace cs st snk).length) (hj : j < (trace cs st snk).length), i ≤ j →
      APre ((trace cs st snk)[i]).out ((trace cs st snk)[j]).out := by
  induction cs generalizing st snk with
  | nil =>
    intro i j hi hj _
    simp only [trace, List.length_singleton] at hi hj
    have : i = 0 := by omega
    have : j = 0 := by omega
    subst_vars
    exact APre.refl _
  | cons c cs ih =>
    intro i j hi hj hij
    simp only [trace] at hi hj ⊢
    -- every later sink extends the first one
    have first : ∀ k (hk : k < (trace cs (step st snk c).1 (step st snk c).2).length),
        APre snk.out ((trace cs (step st snk c).1 (step st snk c).2)[k]).out := by
      intro k hk
      have h0 : 0 < (trace cs (step st snk c).1 (step st snk c).2).length := by omega
      have hk0 := ih (step st snk c).1 (step st snk c).2 0 k h0 hk (Nat.zero_le _)
      have hz : ((trace cs (step st snk c).1 (step st snk c).2)[0]) = (step st snk c).2 := by
        cases cs <;> simp [trace]
      rw [hz] at hk0
      exact (step_only_appends st snk c).trans hk0
    cases i with
    | zero =>
      cases j with
      | zero => exact APre.refl _
      | succ j => simpa using first j (by simpa using hj)
    | succ i =>
      cases j with
      | zero => omega
      | succ j =>
        simpa using ih (step st snk c).1 (step st snk c).2 i j (by simpa using hi) (by simpa using hj) (by omega)

/-- stream and sink after all calls of a sequence -/
def runCalls : List Call → Stream → Sink → Stream × Sink
  | [], st, snk => (st, snk)
  | c :: cs, st, snk => runCalls cs (step st snk c).1 (step st snk c).2

theorem trace_last (cs : List Call) (st : Stream) (snk : Sink) :
    ∃ h : (trace cs st snk).length - 1 < (trace cs st snk).length,
      (trace cs st snk)[(trace cs st snk).length - 1] = (runCalls cs st snk).2 := by
  induction cs generalizing st snk with
  | nil => exact ⟨by simp [trace], by simp [trace, runCalls]⟩
  | cons c cs ih =>
    obtain ⟨h, e⟩ := ih (step st snk c).1 (step st snk c).2
    have hl : 0 < (trace cs (step st snk c).1 (step st snk c).2).length := by omega
    refine ⟨by simp [trace], ?_⟩
    simp only [trace, List.length_cons, runCalls, Nat.add_sub_cancel]
    rw [← e]
    have : (trace cs (step st snk c).1 (step st snk c).2).length =
        ((trace cs (step st snk c).1 (step st snk c).2).length - 1) + 1 := by omega
    rw [List.getElem_cons]
    split
    · omega
    · rfl

/-- **… and of the final output**: what the sink holds after any call of the
sequence is a prefix of what it holds after the remaining calls and `finish`
(whether `finish` succeeds or not). -/
theorem stream_sink_prefix_of_final (cs : List Call) (st : Stream) (snk : Sink) (i : Nat)
    (hi : i < (trace cs st snk).length) :
    APre ((trace cs st snk)[i]).out
      (((runCalls cs st snk).1).finish (runCalls cs st snk).2).1.out := by
  obtain ⟨hl, e⟩ := trace_last cs st snk
  have h1 := stream_sink_prefix cs st snk i ((trace cs st snk).length - 1) hi hl (by omega)
  rw [e] at h1
  exact h1.trans (finish_only_appends _ _)

/-- non-vacuity: a concrete call sequence on a fresh stream -/
example : (trace [.write [0x5d, 0, 0], .flush, .write [0x80, 0]] (Stream.newWithOptions {}) {}).length = 4 := by
  simp [trace]

end Lzma.C15
