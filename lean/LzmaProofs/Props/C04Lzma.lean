/-
  C04 (LZMA part) — the literal-only `.lzma` encoder of lzma-rs (`encode/dumbencoder.rs`,
  `lzma_compress_with_options`) is format-conformant and round-trips.

  * `dumb_enc_is_refenc`: for EVERY input, every fragmentation of the input reader and every
    `UnpackedSize` option, on an all-accepting sink the encoder succeeds and writes exactly
    `lzmaHeader ⟨3,0,2⟩ 0x00800000 size ++ encodeSyms ⟨3,0,2⟩ dict prog`, where `encodeSyms` is the
    format-level REFERENCE encoder (`LzmaSpec/Sym.lean`) and `prog` is "every input byte as a
    literal, followed by the end marker iff the option is `WriteToHeader(None)`".
  * `marker_range_divisible` / `marker_direct_eq_fresh`: the delicate step.  lzma-rs codes all
    41 marker bits after `is_match` with a fresh probability `0x400`; the format codes 26 of
    them as DIRECT bits.  The two codings coincide because `2^11 ∣ range` at every one of these
    positions, whatever the coder state before the marker was.
  * `lzma_enc_roundtrip_partial`: with the decoder exactness theorems (`lzma_decode_exact_*`,
    proved separately; taken as explicit hypotheses here) the decoder maps the encoder's output
    back to the input, for the three matching option pairs.  `WriteToHeader(Some(n))` with
    `n ≠ len` is documented by the crate as unchecked and is NOT claimed
    (`writeToHeader_wrong_size_no_roundtrip` shows that it indeed fails).
-/
import LzmaProofs.Lemmas.DumbEnc
namespace Lzma.C04
open Lzma
open Lzma.REnc
open Lzma.DumbEnc

/-! ## format conformance -/

/-- the size field of the header for an encoder option: all-ones, `n`, or no size field -/
theorem hdrSize_def :
    hdrSize (.writeToHeader none) = some 0xFFFFFFFFFFFFFFFF ∧
    (∀ n, hdrSize (.writeToHeader (some n)) = some n) ∧
    hdrSize .skipWritingToHeader = none := ⟨rfl, fun _ => rfl, rfl⟩

/-- the header the encoder writes: properties byte `0x5D`, dictionary size `0x00800000` LE,
then the size field -/
theorem header_bytes (opt : EncSizeOpt) :
    lzmaHeader ⟨3, 0, 2⟩ 0x00800000 (hdrSize opt) =
      [0x5D, 0x00, 0x00, 0x80, 0x00] ++ (match hdrSize opt with
        | some n => leBytes 8 n
        | none => []) := by
  cases opt with
  | skipWritingToHeader => decide
  | writeToHeader x => cases x <;> simp [lzmaHeader, hdrSize, leBytes] <;> decide

/-- **C04 (LZMA), format conformance, any all-accepting sink.** -/
theorem dumb_enc_is_refenc_sink (data : Bytes) (fr : List Nat) (opt : EncSizeOpt) (dict : Nat)
    (snk0 : Sink) (h0 : snk0.script = []) :
    ∃ snk, lzmaCompress { rem := data, frags := fr } opt snk0 = (snk, .ok ()) ∧
      snk.script = [] ∧
      snk.out.toList = snk0.out.toList ++ (lzmaHeader ⟨3, 0, 2⟩ 0x00800000 (hdrSize opt) ++
        encodeSyms ⟨3, 0, 2⟩ dict
          (data.map Sym.lit ++ (if opt = .writeToHeader none then [.eos] else []))) := by
  obtain ⟨s1, h1, x1⟩ := fromStream_run opt snk0 h0
  obtain ⟨s2, h2, x2⟩ := process_sim dict data fr opt s1 x1.1
  refine ⟨s2, ?_, x2.1, (x1.trans x2).2⟩
  show (fromStream opt >>= fun e => e.process _) snk0 = _
  rw [bind_run_ok h1]
  exact h2

/-- **C04 (LZMA), format conformance.**  For every input `data`, every read fragmentation
`fr`, every option `opt` (and every dictionary limit `dict` given to the reference encoder —
literals never consult it), `lzma_compress_with_options` succeeds on the perfect sink and its
output is the `.lzma` header followed by the reference encoding of the literal program. -/
theorem dumb_enc_is_refenc (data : Bytes) (fr : List Nat) (opt : EncSizeOpt) (dict : Nat) :
    ∃ snk, lzmaCompress { rem := data, frags := fr } opt {} = (snk, .ok ()) ∧
      snk.out.toList = lzmaHeader ⟨3, 0, 2⟩ 0x00800000 (hdrSize opt) ++
        encodeSyms ⟨3, 0, 2⟩ dict
          (data.map Sym.lit ++ (if opt = .writeToHeader none then [.eos] else [])) := by
  obtain ⟨snk, h, _, ho⟩ := dumb_enc_is_refenc_sink data fr opt dict {} rfl
  exact ⟨snk, h, by simpa using ho⟩

/-- the two options without end marker -/
theorem dumb_enc_is_refenc_nomarker (data : Bytes) (fr : List Nat) (opt : EncSizeOpt) (dict : Nat)
    (hopt : opt ≠ .writeToHeader none) :
    ∃ snk, lzmaCompress { rem := data, frags := fr } opt {} = (snk, .ok ()) ∧
      snk.out.toList = lzmaHeader ⟨3, 0, 2⟩ 0x00800000 (hdrSize opt) ++
        encodeSyms ⟨3, 0, 2⟩ dict (data.map Sym.lit) := by
  obtain ⟨snk, h, ho⟩ := dumb_enc_is_refenc data fr opt dict
  rw [if_neg hopt, List.append_nil] at ho
  exact ⟨snk, h, ho⟩

/-- the option with end marker -/
theorem dumb_enc_is_refenc_marker (data : Bytes) (fr : List Nat) (dict : Nat) :
    ∃ snk, lzmaCompress { rem := data, frags := fr } (.writeToHeader none) {} = (snk, .ok ()) ∧
      snk.out.toList = lzmaHeader ⟨3, 0, 2⟩ 0x00800000 (some 0xFFFFFFFFFFFFFFFF) ++
        encodeSyms ⟨3, 0, 2⟩ dict (data.map Sym.lit ++ [.eos]) := by
  obtain ⟨snk, h, ho⟩ := dumb_enc_is_refenc data fr (.writeToHeader none) dict
  rw [if_pos rfl] at ho
  exact ⟨snk, h, ho⟩

/-! ### non-vacuity: both sides evaluated by the kernel -/

/-- does the modelled encoder succeed with exactly the reference bytes? -/
def agrees (data : Bytes) (opt : EncSizeOpt) : Bool :=
  let r := lzmaCompress { rem := data } opt {}
  (match r.2 with
    | .ok _ => true
    | .error _ => false) &&
  r.1.out.toList == lzmaHeader ⟨3, 0, 2⟩ 0x00800000 (hdrSize opt) ++
    encodeSyms ⟨3, 0, 2⟩ 0x00800000
      (data.map Sym.lit ++ (if opt = .writeToHeader none then [.eos] else []))

example : agrees [] (.writeToHeader none) = true := by decide +kernel
example : agrees [] (.writeToHeader (some 0)) = true := by decide +kernel
example : agrees [] .skipWritingToHeader = true := by decide +kernel
example : agrees [0x61] (.writeToHeader none) = true := by decide +kernel
example : agrees [0x61] (.writeToHeader (some 1)) = true := by decide +kernel
example : agrees [0, 0, 0, 0, 0xFF] (.writeToHeader none) = true := by decide +kernel
example : agrees [0, 0, 0, 0, 0xFF] (.writeToHeader (some 5)) = true := by decide +kernel
example : agrees [0, 0, 0, 0, 0xFF] .skipWritingToHeader = true := by decide +kernel

/-- the empty input with end marker, spelled out (13 header bytes, 10 payload bytes) -/
example : (lzmaCompress { rem := [] } (.writeToHeader none) {}).1.out.toList =
    [93, 0, 0, 128, 0, 255, 255, 255, 255, 255, 255, 255, 255,
     0, 131, 255, 251, 255, 255, 192, 0, 0, 0] := by decide +kernel

/-! ## the end marker -/

/-- **`marker_range_divisible`.**  From ANY consistent range-coder state `e` (in particular
the one after the marker's `is_match` bit, whose probability is not `0x400` in general): after
the marker's `is_rep` bit (0), four length bits (0) and six position-slot bits (1), all coded
with probability `0x400`, and after any number `k` of further one-bits coded with probability
`0x400`, the range is a multiple of `2^11`. -/
theorem marker_range_divisible (e : REnc) (he : EOk e) (k : Nat) :
    2 ^ 11 ∣ (freshRun ((false :: (List.replicate 4 false ++ List.replicate 6 true)) ++
      List.replicate k true) e).1.range :=
  Lzma.marker_range_divisible e he k

/-- when `2^11 ∣ range`, coding a bit with probability `0x400` IS coding a direct bit
(same `low`, same `range`, same bytes shifted out) -/
theorem direct_eq_fresh_of_divisible (e : REnc) (b : Bool) (h : 2 ^ 11 ∣ e.range) :
    stepDirect e b = stepBit e 0x400 b :=
  stepDirect_eq_stepBit e b (Nat.mod_eq_zero_of_dvd h)

/-- the divisibility is needed: on the fresh coder (`range = 0xFFFFFFFF`) the two codings of
a one-bit differ -/
theorem direct_ne_fresh_in_general : stepDirect {} true ≠ stepBit {} 0x400 true := by
  decide +kernel

/-- **the marker, whole.**  From any consistent state, the format's events for the end
marker after its `isMatch` bit (`markerTail ps`: probability-coded bits whose table entries
are all still `0x400`, and 26 direct bits) and lzma-rs's 41 `0x400`-coded bits (`markerBits`)
drive the range coder identically: same final state, same bytes. -/
theorem marker_direct_eq_fresh (ps : Nat) (e : REnc) (he : EOk e) :
    ev400Run (markerTail ps) e = freshRun markerBits e := marker_eq ps e he

/-- `markerTail` is what the format prescribes for the end marker in a literal-only stream -/
theorem marker_events (c : ECtx) (h0 : c.state = 0) :
    rawSymEvents c (Sym.toRaw .eos) = .pbit (.isMatch c.posState) true :: markerTail c.posState :=
  rawSymEvents_eos c h0

/-- a literal-only program has left every table the marker reads (other than `isMatch`) at
`0x400`; `d` is any state of the Rust encoder's tables -/
theorem marker_tables_fresh (d : DumbEnc) (k v ps : Nat) (hps : ps < 4) :
    Fresh400 (d.toProbs.set (.isMatch k) v) (markerTail ps) := markerTail_fresh d k v ps hps

/-! ## round trip -/

/-- statement of `lzma_decode_exact_sized` for given properties and dictionary field: the
decoder on header (with size field) + reference encoding of a marker-free program + any
trailing bytes `T` returns the program's meaning and stops exactly before `T` -/
def DecodeExactSized (props : Props) (D : Nat) : Prop :=
  ∀ (prog : List Sym) (st : SpecSt) (T : Bytes), Sym.eos ∉ prog →
    SpecSt.run (max D 4096) {} prog = some (st, false) →
    ∃ snk, lzmaDecompress (Rd.ofBytes (lzmaHeader props D (some st.hist.size) ++
        encodeSyms props (max D 4096) prog ++ T)) {} {} = (snk, .ok { rem := T }) ∧
      snk.out.toList = st.hist.toList

/-- statement of `lzma_decode_exact_marker`: all-ones size field, program ended by the marker -/
def DecodeExactMarker (props : Props) (D : Nat) : Prop :=
  ∀ (prog : List Sym) (st : SpecSt), Sym.eos ∉ prog →
    SpecSt.run (max D 4096) {} prog = some (st, false) →
    ∃ snk, lzmaDecompress (Rd.ofBytes (lzmaHeader props D (some 0xFFFFFFFFFFFFFFFF) ++
        encodeSyms props (max D 4096) (prog ++ [.eos]))) {} {} = (snk, .ok { rem := [] }) ∧
      snk.out.toList = st.hist.toList

/-- the 5-byte-header variant of `lzma_decode_exact_sized`: no size field, the size is
provided by the caller (`UnpackedSize::UseProvided(Some(n))`) -/
def DecodeExactProvided (props : Props) (D : Nat) : Prop :=
  ∀ (prog : List Sym) (st : SpecSt) (T : Bytes), Sym.eos ∉ prog →
    SpecSt.run (max D 4096) {} prog = some (st, false) →
    ∃ snk, lzmaDecompress (Rd.ofBytes (lzmaHeader props D none ++
        encodeSyms props (max D 4096) prog ++ T))
        { unpackedSize := .useProvided (some st.hist.size) } {} = (snk, .ok { rem := T }) ∧
      snk.out.toList = st.hist.toList

/-- the meaning of the literal program is the input -/
theorem run_lits (dict : Nat) : ∀ (data : Bytes) (st : SpecSt),
    ∃ st', SpecSt.run dict st (data.map Sym.lit) = some (st', false) ∧
      st'.hist = st.hist ++ data.toArray
  | [], st => ⟨st, rfl, by simp⟩
  | b :: data, st => by
    obtain ⟨st', h1, h2⟩ := run_lits dict data
      { st with hist := st.hist.push b, state := SpecSt.litState st.state }
    refine ⟨st', ?_, by rw [h2]; simp⟩
    simp only [List.map_cons, SpecSt.run, SpecSt.step]
    exact h1

theorem lits_no_eos (data : Bytes) : Sym.eos ∉ data.map Sym.lit := by simp

/-- the decoder option that matches an encoder option -/
def decOptions (opt : EncSizeOpt) (len : Nat) : Options :=
  match opt with
  | .writeToHeader _ => {}
  | .skipWritingToHeader => { unpackedSize := .useProvided (some len) }

/-- **C04 (LZMA), round trip** — relative to the decoder exactness theorems for
`lc = 3, lp = 0, pb = 2`, dictionary field `0x00800000` (hypotheses `hS`, `hM`, `hP`).
For every input, fragmentation, and each of the matching option pairs
(`WriteToHeader(None)` / `ReadFromHeader`, `WriteToHeader(Some(len))` / `ReadFromHeader`,
`SkipWritingToHeader` / `UseProvided(Some(len))`), decoding the encoder's output yields the
input and consumes all of it.  `_partial`: `WriteToHeader(Some(n))` with `n ≠ len` is excluded
(see `writeToHeader_wrong_size_no_roundtrip`). -/
theorem lzma_enc_roundtrip_partial
    (hS : DecodeExactSized ⟨3, 0, 2⟩ 0x00800000) (hM : DecodeExactMarker ⟨3, 0, 2⟩ 0x00800000)
    (hP : DecodeExactProvided ⟨3, 0, 2⟩ 0x00800000)
    (data : Bytes) (fr : List Nat) (opt : EncSizeOpt)
    (hopt : ∀ n, opt = .writeToHeader (some n) → n = data.length) :
    ∃ snk snk', lzmaCompress { rem := data, frags := fr } opt {} = (snk, .ok ()) ∧
      lzmaDecompress (Rd.ofBytes snk.out.toList) (decOptions opt data.length) {} =
        (snk', .ok { rem := [] }) ∧
      snk'.out.toList = data := by
  obtain ⟨snk, hc, ho⟩ := dumb_enc_is_refenc data fr opt (max 0x00800000 4096)
  obtain ⟨st, hrun, hhist⟩ := run_lits (max 0x00800000 4096) data {}
  have hlist : st.hist.toList = data := by rw [hhist]; simp
  have hsize : st.hist.size = data.length := by rw [hhist]; simp
  refine ⟨snk, ?_⟩
  rw [ho]
  cases opt with
  | skipWritingToHeader =>
    obtain ⟨snk', hd, hout⟩ := hP _ st [] (lits_no_eos data) hrun
    refine ⟨snk', hc, ?_, by rw [hout, hlist]⟩
    rw [hsize, List.append_nil] at hd
    simpa [decOptions, hdrSize] using hd
  | writeToHeader x =>
    cases x with
    | none =>
      obtain ⟨snk', hd, hout⟩ := hM _ st (lits_no_eos data) hrun
      refine ⟨snk', hc, ?_, by rw [hout, hlist]⟩
      simpa [decOptions, hdrSize] using hd
    | some n =>
      obtain rfl := hopt n rfl
      obtain ⟨snk', hd, hout⟩ := hS _ st [] (lits_no_eos data) hrun
      refine ⟨snk', hc, ?_, by rw [hout, hlist]⟩
      rw [hsize, List.append_nil] at hd
      simpa [decOptions, hdrSize] using hd

/-- did the run end without error? -/
def succeeded {α : Type} (r : Sink × Except Err α) : Bool :=
  match r.2 with
  | .ok _ => true
  | .error _ => false

/-- why the excluded case is excluded: with `WriteToHeader(Some(0))` on a one-byte input the
encoder succeeds and the decoder (which trusts the header) succeeds too, but returns the
empty output -/
theorem writeToHeader_wrong_size_no_roundtrip :
    succeeded (lzmaCompress { rem := [0x61] } (.writeToHeader (some 0)) {}) = true ∧
    succeeded (lzmaDecompress (Rd.ofBytes
      (lzmaCompress { rem := [0x61] } (.writeToHeader (some 0)) {}).1.out.toList) {} {}) = true ∧
    (lzmaDecompress (Rd.ofBytes
      (lzmaCompress { rem := [0x61] } (.writeToHeader (some 0)) {}).1.out.toList) {} {}).1.out.toList
        = [] := by
  refine ⟨?_, ?_, ?_⟩ <;> decide +kernel

/-! ### non-vacuity of the round trip: the three pairs, evaluated -/

/-- encode, decode, compare -/
def roundTrips (data : Bytes) (opt : EncSizeOpt) : Bool :=
  let r := lzmaCompress { rem := data } opt {}
  let d := lzmaDecompress (Rd.ofBytes r.1.out.toList) (decOptions opt data.length) {}
  (match d.2 with
    | .ok rd => rd.rem.isEmpty
    | .error _ => false) && d.1.out.toList == data

example : roundTrips [0, 0, 0, 0, 0xFF] (.writeToHeader none) = true := by decide +kernel
example : roundTrips [0, 0, 0, 0, 0xFF] (.writeToHeader (some 5)) = true := by decide +kernel
example : roundTrips [0, 0, 0, 0, 0xFF] .skipWritingToHeader = true := by decide +kernel
example : roundTrips [] (.writeToHeader none) = true := by decide +kernel

/-- does the decoder return `expected` and consume the whole input? -/
def decodesTo (input : Bytes) (opts : Options) (expected : Bytes) : Bool :=
  let d := lzmaDecompress (Rd.ofBytes input) opts {}
  (match d.2 with
    | .ok rd => rd.rem.isEmpty && !rd.bad
    | .error _ => false) && d.1.out.toList == expected

/-- the hypotheses of `lzma_enc_roundtrip_partial` are universally quantified statements about
concrete streams; instances of `DecodeExactMarker`, `DecodeExactSized`, `DecodeExactProvided`
(program `[lit 0x61, lit 0x62]`) hold by evaluation -/
example : decodesTo (lzmaHeader ⟨3, 0, 2⟩ 0x00800000 (some 0xFFFFFFFFFFFFFFFF) ++
    encodeSyms ⟨3, 0, 2⟩ (max 0x00800000 4096) ([Sym.lit 0x61, Sym.lit 0x62] ++ [.eos])) {}
    [0x61, 0x62] = true := by decide +kernel
example : decodesTo (lzmaHeader ⟨3, 0, 2⟩ 0x00800000 (some 2) ++
    encodeSyms ⟨3, 0, 2⟩ (max 0x00800000 4096) [Sym.lit 0x61, Sym.lit 0x62]) {}
    [0x61, 0x62] = true := by decide +kernel
example : decodesTo (lzmaHeader ⟨3, 0, 2⟩ 0x00800000 none ++
    encodeSyms ⟨3, 0, 2⟩ (max 0x00800000 4096) [Sym.lit 0x61, Sym.lit 0x62])
    { unpackedSize := .useProvided (some 2) } [0x61, 0x62] = true := by decide +kernel

end Lzma.C04
