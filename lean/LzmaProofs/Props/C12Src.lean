/-
  C12 (reader side, whole decoders) — a source fault never yields success that the fault-free
  source would not yield, and it never corrupts what is delivered.

  The input is the flat reader `Rd`: `bad = true` means that demanding a byte beyond the data —
  or probing for the end of input (`fill_buf`, `is_eof`, `flush_zero_padding`) when no data is
  left — is an I/O error instead of "end of file".  For each one-shot decoder
  `D ∈ {lzma_decompress_with_options, lzma2_decompress, xz_decompress}`, EVERY input `x`, EVERY
  sink (any fault script), every option set:

  * `*_fault_never_helps`: a run on the faulty source that succeeds never touched the fault: the
    fault-free run on the same bytes gives the same sink, the same verdict and the same reader
    position;
  * `*_fault_propagates_partial`: if the fault-free run on `x` fails, so does the faulty run, and
    what the faulty run delivered is a prefix of what the fault-free run delivered.  (Equality of
    the delivered bytes is false in general, see `fault_out_may_be_shorter`: the fault-free run
    goes on after the point where the faulty one stopped — e.g. `finish` writes the window — and
    fails later for another reason.)
  * `*_eof_probe_faults`: the decoders that end by probing for the end of input
    (`xz_decompress` always, `lzma_decompress` when no unpacked size is in effect) never succeed
    on a faulty source: the final `is_eof` is an I/O error.

  Proof: `Lemmas/SrcFault.lean` carries the relation "success on `rd` ⇒ identical success on
  `rd.good`, failure on `rd` ⇒ delivered a prefix" through every function of the model.
-/
import LzmaProofs.Lemmas.SrcFault
namespace Lzma.C12
open Lzma Lzma.SF

/-! ## 1. a fault never helps -/

/-- **LZMA.**  If the run on the faulty source succeeds, the fault-free run on the same bytes is
the same run: same sink (all fields), `Ok`, same reader position.  (The reader handed back by
the faulty run still carries the fault flag.) -/
theorem lzma_fault_never_helps (x : Bytes) (opts : Options) (snk snk' : Sink) (rd' : Rd)
    (h : lzmaDecompress { rem := x, bad := true } opts snk = (snk', .ok rd')) :
    lzmaDecompress { rem := x, bad := false } opts snk = (snk', .ok { rem := rd'.rem, bad := false })
    ∧ rd'.bad = true :=
  (lzmaDecompress_sim (b := true) { rem := x, bad := true } opts rfl).ok h

/-- **LZMA2.** -/
theorem lzma2_fault_never_helps (x : Bytes) (snk snk' : Sink) (rd' : Rd)
    (h : lzma2Decompress { rem := x, bad := true } snk = (snk', .ok rd')) :
    lzma2Decompress { rem := x, bad := false } snk = (snk', .ok { rem := rd'.rem, bad := false })
    ∧ rd'.bad = true :=
  (lzma2Decompress_sim (b := true) { rem := x, bad := true } rfl).ok h

/-- **XZ.**  (By `xz_eof_probe_faults` the hypothesis is never met: stated for uniformity.) -/
theorem xz_fault_never_helps (x : Bytes) (snk snk' : Sink) (rd' : Rd)
    (h : xzDecompress { rem := x, bad := true } snk = (snk', .ok rd')) :
    xzDecompress { rem := x, bad := false } snk = (snk', .ok { rem := rd'.rem, bad := false })
    ∧ rd'.bad = true :=
  (xzDecompress_sim (b := true) { rem := x, bad := true } rfl).ok h

/-- The same for a reader with ANY flag, in terms of `Rd.good` (`= { rd with bad := false }`):
the flag is handed through unchanged, and the fault-free run is identical. -/
theorem fault_never_helps (rd rd' : Rd) (opts : Options) (snk snk' : Sink) :
    (lzmaDecompress rd opts snk = (snk', .ok rd') →
      lzmaDecompress rd.good opts snk = (snk', .ok rd'.good) ∧ rd'.bad = rd.bad) ∧
    (lzma2Decompress rd snk = (snk', .ok rd') →
      lzma2Decompress rd.good snk = (snk', .ok rd'.good) ∧ rd'.bad = rd.bad) ∧
    (xzDecompress rd snk = (snk', .ok rd') →
      xzDecompress rd.good snk = (snk', .ok rd'.good) ∧ rd'.bad = rd.bad) :=
  ⟨fun h => (lzmaDecompress_sim rd opts rfl).ok h, fun h => (lzma2Decompress_sim rd rfl).ok h,
   fun h => (xzDecompress_sim rd rfl).ok h⟩

/-! ## 2. a failure of the fault-free run is a failure of the faulty run -/

/-- **LZMA.**  If the fault-free run on `x` fails (truncated or corrupt data, sink fault, …) the
faulty run fails too — possibly with another error class (`.io`, or `.lzma` /
`.headerTooShort` where the Rust code remaps the I/O error) and possibly earlier: what it has
delivered is a prefix of what the fault-free run delivered. -/
theorem lzma_fault_propagates_partial (x : Bytes) (opts : Options) (snk sg : Sink) (e : Err)
    (h : lzmaDecompress { rem := x, bad := false } opts snk = (sg, .error e)) :
    ∃ sb e', lzmaDecompress { rem := x, bad := true } opts snk = (sb, .error e') ∧
      ∃ t : Array UInt8, sg.out = sb.out ++ t :=
  (lzmaDecompress_sim (b := true) { rem := x, bad := true } opts rfl).error_of_error h

/-- **LZMA2.** -/
theorem lzma2_fault_propagates_partial (x : Bytes) (snk sg : Sink) (e : Err)
    (h : lzma2Decompress { rem := x, bad := false } snk = (sg, .error e)) :
    ∃ sb e', lzma2Decompress { rem := x, bad := true } snk = (sb, .error e') ∧
      ∃ t : Array UInt8, sg.out = sb.out ++ t :=
  (lzma2Decompress_sim (b := true) { rem := x, bad := true } rfl).error_of_error h

/-- **XZ.** -/
theorem xz_fault_propagates_partial (x : Bytes) (snk sg : Sink) (e : Err)
    (h : xzDecompress { rem := x, bad := false } snk = (sg, .error e)) :
    ∃ sb e', xzDecompress { rem := x, bad := true } snk = (sb, .error e') ∧
      ∃ t : Array UInt8, sg.out = sb.out ++ t :=
  (xzDecompress_sim (b := true) { rem := x, bad := true } rfl).error_of_error h

/-- Whatever the faulty run does, it never delivers anything the fault-free run does not: on
success the sinks are equal (section 1), on failure the delivered bytes are a prefix of those of
the fault-free run — whether that one fails or succeeds. -/
theorem fault_delivers_prefix (x : Bytes) (opts : Options) (snk : Sink) :
    (∃ t : Array UInt8, (lzmaDecompress { rem := x, bad := false } opts snk).1.out
        = (lzmaDecompress { rem := x, bad := true } opts snk).1.out ++ t) ∧
    (∃ t : Array UInt8, (lzma2Decompress { rem := x, bad := false } snk).1.out
        = (lzma2Decompress { rem := x, bad := true } snk).1.out ++ t) ∧
    (∃ t : Array UInt8, (xzDecompress { rem := x, bad := false } snk).1.out
        = (xzDecompress { rem := x, bad := true } snk).1.out ++ t) := by
  have key : ∀ {mb mg : M Rd}, Sim Gd.gd (Gd.fl true) mb mg →
      ∃ t : Array UInt8, (mg snk).1.out = (mb snk).1.out ++ t := by
    intro mb mg h
    rcases hb : mb snk with ⟨sb, r⟩
    cases r with
    | ok rd' => rw [(h.ok hb).1]; exact ⟨#[], by simp⟩
    | error e => exact (h.run snk).2 sb e hb
  exact ⟨key (lzmaDecompress_sim (b := true) { rem := x, bad := true } opts rfl),
    key (lzma2Decompress_sim (b := true) { rem := x, bad := true } rfl),
    key (xzDecompress_sim (b := true) { rem := x, bad := true } rfl)⟩

/-- is the result an error? -/
def isErr {α : Type} : Except Err α → Bool
  | .error _ => true
  | .ok _ => false

/-- a 2-byte `.lzma` stream (`lc = lp = pb = 0`, liblzma output for `"ab"`, size field all-ones,
end marker) -/
def lzmaAbMarker : Bytes :=
  [0, 0, 16, 0, 0, 255, 255, 255, 255, 255, 255, 255, 255, 0, 48, 153, 197, 104, 43, 235, 255,
   237, 244, 128, 0]

/-- **Why only a prefix.**  "The faulty run fails with the same delivered bytes" is false: on the
complete stream `lzmaAbMarker` with a sink that takes one byte and then fails, the fault-free run
reaches `finish`, delivers `"a"` and reports the sink's I/O error, while the faulty run already
failed at the `is_eof` probe behind the end marker, before anything was written. -/
theorem fault_out_may_be_shorter :
    isErr (lzmaDecompress { rem := lzmaAbMarker, bad := false } {} { script := [.upto 1, .fail] }).2 = true ∧
    (lzmaDecompress { rem := lzmaAbMarker, bad := false } {} { script := [.upto 1, .fail] }).1.out = #[97] ∧
    isErr (lzmaDecompress { rem := lzmaAbMarker, bad := true } {} { script := [.upto 1, .fail] }).2 = true ∧
    (lzmaDecompress { rem := lzmaAbMarker, bad := true } {} { script := [.upto 1, .fail] }).1.out = #[] := by
  decide +kernel

/-! ## 3. decoders that probe for the end of input never succeed on a faulty source -/

/-- **XZ**: `decode_stream` ends with `is_eof`; with data left that is "trailing data"
(`C11.xz_rejects_trailing`), with no data left it is the I/O error of the faulty source. -/
theorem xz_eof_probe_faults (x : Bytes) (snk snk' : Sink) (rd' : Rd) :
    xzDecompress { rem := x, bad := true } snk ≠ (snk', .ok rd') := by
  intro h
  have h1 := ((xzDecompress_sim (b := true) { rem := x, bad := true } rfl).ok h).2
  have h2 := (xzDecompress_ok_good h).2
  simp only [fl_rd] at h1
  rw [h1] at h2
  cases h2

/-- **LZMA with no unpacked size in effect** (the header's size field is all-ones with
`ReadFromHeader`, or `None` is provided): both exits of `process_mode(Finish)` — end marker, or
`code = 0` at the end of input — go through `is_finished_ok`, i.e. `is_eof`. -/
theorem lzma_eof_probe_faults (x : Bytes) (opts : Options) (snk snk' : Sink) (rd' : Rd)
    (hopts : (opts.unpackedSize = .readFromHeader ∧
                leVal ((x.drop 5).take 8) = 0xFFFFFFFFFFFFFFFF) ∨
             opts.unpackedSize = .readHeaderButUseProvided none ∨
             opts.unpackedSize = .useProvided none) :
    lzmaDecompress { rem := x, bad := true } opts snk ≠ (snk', .ok rd') := by
  intro h
  have h1 := ((lzmaDecompress_sim (b := true) { rem := x, bad := true } opts rfl).ok h).2
  have h2 : rd'.bad = false := by
    refine (lzmaDecompress_no_size_good h ?_).2
    intro params rd1 hh
    rw [L2.readHeader_unpackedSize hh]
    rcases hopts with ⟨h1, h2⟩ | h1 | h1
    · rw [h1]; simp only [h2, if_true]
    · rw [h1]
    · rw [h1]
  simp only [fl_rd] at h1
  rw [h1] at h2
  cases h2

/-- contrapositive form: any success of these decoders is a success on a fault-free source -/
theorem success_means_no_fault (rd rd' : Rd) (snk snk' : Sink)
    (h : xzDecompress rd snk = (snk', .ok rd')) : rd.bad = false ∧ rd'.rem = [] := by
  have h1 := ((xzDecompress_sim rd rfl).ok h).2
  have h2 := xzDecompress_ok_good h
  simp only [fl_rd] at h1
  exact ⟨by rw [← h1]; exact h2.2, h2.1⟩

/-! ## non-vacuity -/

/-- `"ab"` with the size `2` in the header (the stream is not read to its end) -/
def lzmaAbSized : Bytes :=
  [0, 0, 16, 0, 0, 2, 0, 0, 0, 0, 0, 0, 0, 0, 48, 153, 197, 104, 43, 235, 255, 237, 244, 128, 0]

/-- an `.xz` file (CRC32 check, liblzma output for `"abc"`) -/
def xzAbcFile : Bytes :=
  [253, 55, 122, 88, 90, 0, 0, 1, 105, 34, 222, 54, 2, 0, 33, 1, 22, 0, 0, 0, 116, 47, 229, 163,
   1, 0, 2, 97, 98, 99, 0, 0, 194, 65, 36, 53, 0, 1, 23, 3, 7, 96, 12, 188, 144, 66, 153, 13,
   1, 0, 0, 0, 0, 1, 89, 90]

/-- the hypothesis of `*_fault_never_helps` is met: LZMA with a size in effect and LZMA2 stop
without probing the end, so they succeed on a faulty source (here even with unread input) -/
example :
    isErr (lzmaDecompress { rem := lzmaAbSized, bad := true } {} {}).2 = false ∧
    (lzmaDecompress { rem := lzmaAbSized, bad := true } {} {}).1.out = #[97, 98] ∧
    isErr (lzma2Decompress { rem := [1, 0, 2, 7, 8, 9, 0], bad := true } {}).2 = false ∧
    (lzma2Decompress { rem := [1, 0, 2, 7, 8, 9, 0], bad := true } {}).1.out = #[7, 8, 9] := by
  decide +kernel

/-- the hypothesis of `*_fault_propagates_partial` is met by truncated inputs; the faulty runs
fail as well (here: `Io` instead of `Eof` for LZMA and XZ, `LzmaError` both times for LZMA2) -/
example :
    isErr (lzmaDecompress { rem := lzmaAbMarker.take 20, bad := false } {} {}).2 = true ∧
    isErr (lzmaDecompress { rem := lzmaAbMarker.take 20, bad := true } {} {}).2 = true ∧
    isErr (lzma2Decompress { rem := [1, 0, 2, 7, 8], bad := false } {}).2 = true ∧
    isErr (lzma2Decompress { rem := [1, 0, 2, 7, 8], bad := true } {}).2 = true ∧
    isErr (xzDecompress { rem := xzAbcFile.take 40, bad := false } {}).2 = true ∧
    isErr (xzDecompress { rem := xzAbcFile.take 40, bad := true } {}).2 = true := by
  decide +kernel

/-- `*_eof_probe_faults` on complete, valid files: the fault-free source succeeds, the faulty
source fails at the final probe — after all data were delivered -/
example :
    isErr (xzDecompress { rem := xzAbcFile, bad := false } {}).2 = false ∧
    isErr (xzDecompress { rem := xzAbcFile, bad := true } {}).2 = true ∧
    (xzDecompress { rem := xzAbcFile, bad := true } {}).1.out = #[97, 98, 99] ∧
    isErr (lzmaDecompress { rem := lzmaAbMarker, bad := false } {} {}).2 = false ∧
    isErr (lzmaDecompress { rem := lzmaAbMarker, bad := true } {} {}).2 = true := by
  decide +kernel

example : ({} : Options).unpackedSize = .readFromHeader ∧
    leVal ((lzmaAbMarker.drop 5).take 8) = 0xFFFFFFFFFFFFFFFF := by decide

end Lzma.C12
