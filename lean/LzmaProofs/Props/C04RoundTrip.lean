/-
  C04 (LZMA part), closed: what `lzma_compress` emits decodes back to exactly the original bytes,
  provided the matching decode option is used (size written to header; size omitted and supplied
  out of band; end marker).

  Combines
    * `C04Lzma.dumb_enc_is_refenc` — the model encoder emits `lzmaHeader ++ encodeSyms` of the
      literal program — with
    * `C01Exact.lzma_decode_exact_sized / _marker` — the decoder is exact on every
      reference-encoded well-formed program (13-byte header, `ReadFromHeader`) — and
    * their variants for the other two decoder option kinds, proved here from
      `Lemmas/EncRoundTrip.lean`: `lzma_decode_exact_provided` (5-byte header,
      `UseProvided(Some(n))`), `lzma_decode_exact_header_ignored`
      (`ReadHeaderButUseProvided(Some(n))`), and the end-marker forms with `…(None)`.

  No `DecodeExact*` hypothesis is left in `lzma_enc_roundtrip`.  The only side condition beyond
  "the option pair matches" is `n < 2^64 − 1` for `WriteToHeader(Some(n))` — what the 8-byte
  header field can express (`2^64 − 1` means "unknown"; the model's `Nat` sizes are unbounded,
  Rust's are `u64`).  `DecodeExactSized` of `C04Lzma.lean` quantifies over programs of ANY output
  size and is therefore false as stated (`decodeExactSized_false`); the bounded form
  `DecodeExactSizedB` holds, and `lzma_enc_roundtrip_needs_bound` shows that the bound is needed
  in the round trip of the model too.
-/
import LzmaProofs.Lemmas.EncRoundTrip
import LzmaProofs.Props.C01Exact
import LzmaProofs.Props.C04Lzma
namespace Lzma.C04
open Lzma
open Lzma.REnc
open Lzma.DumbEnc
open Lzma.EncRT

/-! ## decoder exactness for the remaining option kinds -/

/-- **End-to-end exactness, size supplied out of band** (`UnpackedSize::UseProvided(Some(n))`,
5-byte header without size field).  Counterpart of `C01.lzma_decode_exact_sized`: for all valid
properties, every dictionary field `D < 2^32`, every well-formed marker-free program, every
trailing input `T`, every perfect sink and every memory limit admitting the window:
`lzma_decompress` succeeds, the sink receives exactly the bytes the program denotes, the last sink
call is a flush, and the reader is left exactly behind the payload.  (No bound on the size: it
does not pass through a header field.) -/
theorem lzma_decode_exact_provided (props : Props) (hp : props.lc ≤ 8 ∧ props.lp ≤ 4 ∧ props.pb ≤ 4)
    (D : Nat) (hD : D < 2 ^ 32) (prog : List Sym) (st : SpecSt)
    (hrun : SpecSt.run (max D 4096) {} prog = some (st, false)) (T : Bytes) (opts : Options)
    (hopt : opts.unpackedSize = .useProvided (some st.hist.size))
    (hmem : min st.hist.size (max D 4096) ≤ opts.memlimit.getD USIZE_MAX)
    (snk0 : Sink) (hs0 : snk0.script = []) :
    ∃ snk, lzmaDecompress (Rd.ofBytes (lzmaHeader props D none ++
          encodeSyms props (max D 4096) prog ++ T)) opts snk0 = (snk, .ok { rem := T }) ∧
      snk.out = snk0.out ++ st.hist ∧ snk.lastFlush = true :=
  decode_exact_sized_of_header hp (by omega) prog st hrun T (headerReads_provided hp hD hopt)
    hmem snk0 hs0

/-- **End-to-end exactness, header size field overridden**
(`UnpackedSize::ReadHeaderButUseProvided(Some(n))`): the 13-byte header's size field — ANY value
`field` — is skipped and the provided size is used. -/
theorem lzma_decode_exact_header_ignored (props : Props)
    (hp : props.lc ≤ 8 ∧ props.lp ≤ 4 ∧ props.pb ≤ 4)
    (D : Nat) (hD : D < 2 ^ 32) (field : Nat) (prog : List Sym) (st : SpecSt)
    (hrun : SpecSt.run (max D 4096) {} prog = some (st, false)) (T : Bytes) (opts : Options)
    (hopt : opts.unpackedSize = .readHeaderButUseProvided (some st.hist.size))
    (hmem : min st.hist.size (max D 4096) ≤ opts.memlimit.getD USIZE_MAX)
    (snk0 : Sink) (hs0 : snk0.script = []) :
    ∃ snk, lzmaDecompress (Rd.ofBytes (lzmaHeader props D (some field) ++
          encodeSyms props (max D 4096) prog ++ T)) opts snk0 = (snk, .ok { rem := T }) ∧
      snk.out = snk0.out ++ st.hist ∧ snk.lastFlush = true :=
  decode_exact_sized_of_header hp (by omega) prog st hrun T (headerReads_ignored hp hD field hopt)
    hmem snk0 hs0

/-- **End-to-end exactness, end marker, no size supplied** (`UseProvided(None)`, 5-byte header):
counterpart of `C01.lzma_decode_exact_marker`. -/
theorem lzma_decode_exact_provided_marker (props : Props)
    (hp : props.lc ≤ 8 ∧ props.lp ≤ 4 ∧ props.pb ≤ 4)
    (D : Nat) (hD : D < 2 ^ 32) (prog : List Sym) (st : SpecSt)
    (hrun : SpecSt.run (max D 4096) {} prog = some (st, false)) (opts : Options)
    (hopt : opts.unpackedSize = .useProvided none)
    (hmem : min st.hist.size (max D 4096) ≤ opts.memlimit.getD USIZE_MAX)
    (snk0 : Sink) (hs0 : snk0.script = []) :
    ∃ snk, lzmaDecompress (Rd.ofBytes (lzmaHeader props D none ++
          encodeSyms props (max D 4096) (prog ++ [.eos]))) opts snk0 = (snk, .ok { rem := [] }) ∧
      snk.out = snk0.out ++ st.hist ∧ snk.lastFlush = true :=
  decode_exact_marker_of_header hp (by omega) prog st hrun (headerReads_provided hp hD hopt)
    hmem snk0 hs0

/-- **End-to-end exactness, end marker, header size field overridden by "unknown"**
(`ReadHeaderButUseProvided(None)`, 13-byte header with ANY size field). -/
theorem lzma_decode_exact_header_ignored_marker (props : Props)
    (hp : props.lc ≤ 8 ∧ props.lp ≤ 4 ∧ props.pb ≤ 4)
    (D : Nat) (hD : D < 2 ^ 32) (field : Nat) (prog : List Sym) (st : SpecSt)
    (hrun : SpecSt.run (max D 4096) {} prog = some (st, false)) (opts : Options)
    (hopt : opts.unpackedSize = .readHeaderButUseProvided none)
    (hmem : min st.hist.size (max D 4096) ≤ opts.memlimit.getD USIZE_MAX)
    (snk0 : Sink) (hs0 : snk0.script = []) :
    ∃ snk, lzmaDecompress (Rd.ofBytes (lzmaHeader props D (some field) ++
          encodeSyms props (max D 4096) (prog ++ [.eos]))) opts snk0 = (snk, .ok { rem := [] }) ∧
      snk.out = snk0.out ++ st.hist ∧ snk.lastFlush = true :=
  decode_exact_marker_of_header hp (by omega) prog st hrun (headerReads_ignored hp hD field hopt)
    hmem snk0 hs0

/-! ## the `DecodeExact*` statements of `C04Lzma.lean` -/

/-- no memory limit admits every window of a 32-bit dictionary -/
theorem memlimit_none_admits (n D : Nat) (hD : D < 2 ^ 32) :
    min n (max D 4096) ≤ (({} : Options).memlimit).getD USIZE_MAX := by
  show _ ≤ USIZE_MAX
  unfold USIZE_MAX U64
  omega

/-- `DecodeExactSized` restricted to what the 8-byte size field can express -/
def DecodeExactSizedB (props : Props) (D : Nat) : Prop :=
  ∀ (prog : List Sym) (st : SpecSt) (T : Bytes), Sym.eos ∉ prog →
    SpecSt.run (max D 4096) {} prog = some (st, false) → st.hist.size < 0xFFFFFFFFFFFFFFFF →
    ∃ snk, lzmaDecompress (Rd.ofBytes (lzmaHeader props D (some st.hist.size) ++
        encodeSyms props (max D 4096) prog ++ T)) {} {} = (snk, .ok { rem := T }) ∧
      snk.out.toList = st.hist.toList

theorem decode_exact_sizedB (props : Props) (hp : props.lc ≤ 8 ∧ props.lp ≤ 4 ∧ props.pb ≤ 4)
    (D : Nat) (hD : D < 2 ^ 32) : DecodeExactSizedB props D := by
  intro prog st T _ hrun hsize
  obtain ⟨snk, h1, h2, -⟩ := C01.lzma_decode_exact_sized props hp D hD prog st hrun hsize T {} rfl
    (memlimit_none_admits _ D hD) {} rfl
  exact ⟨snk, h1, by rw [h2]; simp⟩

theorem decode_exact_marker (props : Props) (hp : props.lc ≤ 8 ∧ props.lp ≤ 4 ∧ props.pb ≤ 4)
    (D : Nat) (hD : D < 2 ^ 32) : DecodeExactMarker props D := by
  intro prog st _ hrun
  obtain ⟨snk, h1, h2, -⟩ := C01.lzma_decode_exact_marker props hp D hD prog st hrun {} rfl
    (memlimit_none_admits _ D hD) {} rfl
  exact ⟨snk, h1, by rw [h2]; simp⟩

theorem decode_exact_provided (props : Props) (hp : props.lc ≤ 8 ∧ props.lp ≤ 4 ∧ props.pb ≤ 4)
    (D : Nat) (hD : D < 2 ^ 32) : DecodeExactProvided props D := by
  intro prog st T _ hrun
  obtain ⟨snk, h1, h2, -⟩ := lzma_decode_exact_provided props hp D hD prog st hrun T
    { unpackedSize := .useProvided (some st.hist.size) } rfl (memlimit_none_admits _ D hD) {} rfl
  exact ⟨snk, h1, by rw [h2]; simp⟩

/-- the instances for the parameters the encoder uses -/
theorem decode_exact_sizedB_inst : DecodeExactSizedB ⟨3, 0, 2⟩ 0x00800000 :=
  decode_exact_sizedB _ (by decide) _ (by decide)
theorem decode_exact_marker_inst : DecodeExactMarker ⟨3, 0, 2⟩ 0x00800000 :=
  decode_exact_marker _ (by decide) _ (by decide)
theorem decode_exact_provided_inst : DecodeExactProvided ⟨3, 0, 2⟩ 0x00800000 :=
  decode_exact_provided _ (by decide) _ (by decide)

/-! ### why `DecodeExactSized` needs the bound -/

theorem leBytes_mod : ∀ (k n : Nat), leBytes k (n % 256 ^ k) = leBytes k n
  | 0, _ => rfl
  | k+1, n => by
    have h1 : n % 256 ^ (k + 1) % 256 = n % 256 := by
      rw [Nat.pow_succ, Nat.mul_comm]; exact Nat.mod_mul_right_mod n 256 (256 ^ k)
    have h2 : n % 256 ^ (k + 1) / 256 = n / 256 % 256 ^ k := by
      rw [Nat.pow_succ, Nat.mul_comm]; exact Nat.mod_mul_right_div_self n 256 (256 ^ k)
    simp only [leBytes, h1, h2, leBytes_mod k (n / 256)]

/-- an 8-byte size field holds the size modulo `2^64` -/
theorem lzmaHeader_size_mod (props : Props) (D n : Nat) :
    lzmaHeader props D (some (n % 2 ^ 64)) = lzmaHeader props D (some n) := by
  have := leBytes_mod 8 n
  simp only [lzmaHeader]
  rw [show (2 : Nat) ^ 64 = 256 ^ 8 by decide, this]

/-- On a stream whose header size field holds `2^64 + m` (i.e. `m`), the decoder delivers `m`
bytes if it succeeds at all. -/
theorem size_field_wraps (props : Props) (hp : props.lc ≤ 8 ∧ props.lp ≤ 4 ∧ props.pb ≤ 4)
    (D : Nat) (hD : D < 2 ^ 32) (m : Nat) (hm : m < 0xFFFFFFFFFFFFFFFF) (rest : Bytes)
    (snk : Sink) (rd' : Rd)
    (h : lzmaDecompress (Rd.ofBytes (lzmaHeader props D (some (2 ^ 64 + m)) ++ rest)) {} {} =
      (snk, .ok rd')) : snk.out.size = m := by
  have hmod : (2 ^ 64 + m) % 2 ^ 64 = m := by omega
  rw [← lzmaHeader_size_mod, hmod] at h
  have hh := readHeader_lzmaHeader (props := props) hp hD (field := m) (by omega) rest
    (opts := {}) rfl
  have := C08.size_in_effect_exact_bytes (n := m) rfl h hh
    (by show sizeOfField m = some m; unfold sizeOfField; rw [if_neg (by omega)])
  simpa using this

/-- there are inputs of `2^64` bytes (in the model) -/
theorem exists_long_input : ∃ data : Bytes, data.length = 2 ^ 64 :=
  ⟨_, List.length_replicate (n := 2 ^ 64) (a := (0 : UInt8))⟩

/-- **`DecodeExactSized` (as stated in `C04Lzma.lean`, without a bound on the output size) is
false**: for a program of `2^64` literals the size field reads 0. -/
theorem decodeExactSized_false (props : Props) (hp : props.lc ≤ 8 ∧ props.lp ≤ 4 ∧ props.pb ≤ 4)
    (D : Nat) (hD : D < 2 ^ 32) : ¬ DecodeExactSized props D := by
  intro hS
  obtain ⟨data, hdata⟩ := exists_long_input
  obtain ⟨st, hrun, hhist⟩ := run_lits (max D 4096) data {}
  have hsz : st.hist.size = 2 ^ 64 + 0 := by rw [hhist, ← hdata]; simp
  obtain ⟨snk, hd, hout⟩ := hS _ st [] (lits_no_eos _) hrun
  rw [hsz, List.append_nil] at hd
  have h0 := size_field_wraps props hp D hD 0 (by decide) _ snk _ hd
  have : snk.out.size = st.hist.size := by
    rw [← Array.length_toList, hout, Array.length_toList]
  omega

/-! ## format conformance relative to the specification layer -/

/-- a literal program followed by the marker is well-formed too -/
theorem run_lits_eos (dict : Nat) : ∀ (data : Bytes) (st : SpecSt),
    ∃ st', SpecSt.run dict st (data.map Sym.lit ++ [.eos]) = some (st', true) ∧
      st'.hist = st.hist ++ data.toArray
  | [], st => ⟨st, rfl, by simp⟩
  | b :: data, st => by
    obtain ⟨st', h1, h2⟩ := run_lits_eos dict data
      { st with hist := st.hist.push b, state := SpecSt.litState st.state }
    refine ⟨st', ?_, by rw [h2]; simp⟩
    simp only [List.map_cons, List.cons_append, SpecSt.run, SpecSt.step]
    exact h1

/-- the symbol program the encoder emits -/
def encProg (data : Bytes) (opt : EncSizeOpt) : List Sym :=
  data.map Sym.lit ++ (if opt = .writeToHeader none then [.eos] else [])

/-- **C04 (LZMA), format conformance relative to the specification layer.**  For every input,
read fragmentation and option, the encoder succeeds on the perfect sink and its output is
`lzmaHeader ⟨3,0,2⟩ 0x00800000 size ++ encodeSyms ⟨3,0,2⟩ dict prog` for a program `prog` that is
WELL-FORMED in the format-level semantics (`SpecSt.run` succeeds, for every dictionary limit
`dict`), ends with the marker iff the option is `WriteToHeader(None)`, and denotes exactly the
input (`expand`).  (`encodeSyms` is the reference encoder that the correspondence check
cross-validates against liblzma.) -/
theorem lzma_enc_output_wellformed (data : Bytes) (fr : List Nat) (opt : EncSizeOpt) (dict : Nat) :
    ∃ snk st, lzmaCompress { rem := data, frags := fr } opt {} = (snk, .ok ()) ∧
      snk.out.toList = lzmaHeader ⟨3, 0, 2⟩ 0x00800000 (hdrSize opt) ++
        encodeSyms ⟨3, 0, 2⟩ dict (encProg data opt) ∧
      SpecSt.run dict {} (encProg data opt) = some (st, decide (opt = .writeToHeader none)) ∧
      st.hist.toList = data ∧ expand dict (encProg data opt) = some data := by
  obtain ⟨snk, hc, ho⟩ := dumb_enc_is_refenc data fr opt dict
  have key : ∃ st, SpecSt.run dict {} (encProg data opt) =
      some (st, decide (opt = .writeToHeader none)) ∧ st.hist.toList = data := by
    by_cases hopt : opt = .writeToHeader none
    · obtain ⟨st, h1, h2⟩ := run_lits_eos dict data {}
      refine ⟨st, ?_, by rw [h2]; simp⟩
      rw [encProg, if_pos hopt, decide_eq_true hopt]
      exact h1
    · obtain ⟨st, h1, h2⟩ := run_lits dict data {}
      refine ⟨st, ?_, by rw [h2]; simp⟩
      rw [encProg, if_neg hopt, decide_eq_false hopt, List.append_nil]
      exact h1
  obtain ⟨st, hrun, hhist⟩ := key
  exact ⟨snk, st, hc, ho, hrun, hhist, by simp [expand, hrun, hhist]⟩

/-! ## round trip -/

/-- the decoder options (`decompress::UnpackedSize`) that match an encoder option
(`compress::UnpackedSize`) for an input of `len` bytes:
* `WriteToHeader(None)` (end marker): `ReadFromHeader`, or `ReadHeaderButUseProvided(None)`;
* `WriteToHeader(Some(n))`: `ReadFromHeader` if `n = len` and `n` is expressible (`< 2^64 − 1`),
  or `ReadHeaderButUseProvided(Some(len))` whatever `n` is;
* `SkipWritingToHeader`: `UseProvided(Some(len))`. -/
def DecMatches (opt : EncSizeOpt) (len : Nat) (u : UnpackedSizeOpt) : Prop :=
  match opt, u with
  | .writeToHeader none, .readFromHeader => True
  | .writeToHeader none, .readHeaderButUseProvided none => True
  | .writeToHeader (some n), .readFromHeader => n = len ∧ n < 0xFFFFFFFFFFFFFFFF
  | .writeToHeader (some _), .readHeaderButUseProvided (some m) => m = len
  | .skipWritingToHeader, .useProvided (some m) => m = len
  | _, _ => False

/-- **C04 (LZMA), round trip, general form.**  For every input `data`, every read fragmentation,
every encoder option `opt`, every decoder `Options` whose `unpacked_size` matches `opt`
(`DecMatches`) and whose memory limit admits the window (`min len dict`; `None` always does),
every perfect sink `snk0` of the decoder, and every trailing input `T` after the encoder's output
(`T = []` when the stream is ended by the marker): the encoder succeeds, and the decoder applied
to its output followed by `T` succeeds, delivers exactly `data`, flushes, and leaves the reader
exactly at `T`. -/
theorem lzma_enc_roundtrip_gen (data : Bytes) (fr : List Nat) (opt : EncSizeOpt) (dopts : Options)
    (hmatch : DecMatches opt data.length dopts.unpackedSize)
    (hmem : min data.length 0x00800000 ≤ dopts.memlimit.getD USIZE_MAX)
    (T : Bytes) (hT : opt = .writeToHeader none → T = []) (snk0 : Sink) (hs0 : snk0.script = []) :
    ∃ snk snk', lzmaCompress { rem := data, frags := fr } opt {} = (snk, .ok ()) ∧
      lzmaDecompress (Rd.ofBytes (snk.out.toList ++ T)) dopts snk0 = (snk', .ok { rem := T }) ∧
      snk'.out.toList = snk0.out.toList ++ data ∧ snk'.lastFlush = true := by
  obtain ⟨snk, hc, ho⟩ := dumb_enc_is_refenc data fr opt (max 0x00800000 4096)
  have hoN : opt ≠ .writeToHeader none → snk.out.toList =
      lzmaHeader ⟨3, 0, 2⟩ 0x00800000 (hdrSize opt) ++
        encodeSyms ⟨3, 0, 2⟩ (max 0x00800000 4096) (data.map Sym.lit) := by
    intro h; rw [ho, if_neg h, List.append_nil]
  have hoM : opt = .writeToHeader none → snk.out.toList =
      lzmaHeader ⟨3, 0, 2⟩ 0x00800000 (some 0xFFFFFFFFFFFFFFFF) ++
        encodeSyms ⟨3, 0, 2⟩ (max 0x00800000 4096) (data.map Sym.lit ++ [.eos]) := by
    intro h; rw [ho, if_pos h, h]; rfl
  clear ho
  obtain ⟨st, hrun, hhist⟩ := run_lits (max 0x00800000 4096) data {}
  have hlist : st.hist.toList = data := by rw [hhist]; simp
  have hsize : st.hist.size = data.length := by rw [hhist]; simp
  have hmem' : min st.hist.size (max 0x00800000 4096) ≤ dopts.memlimit.getD USIZE_MAX := by
    rw [hsize]; exact hmem
  have hp : (3 : Nat) ≤ 8 ∧ (0 : Nat) ≤ 4 ∧ (2 : Nat) ≤ 4 := by decide
  have hD : (0x00800000 : Nat) < 2 ^ 32 := by decide
  refine ⟨snk, ?_⟩
  have fin : ∀ {snk' : Sink}, snk'.out = snk0.out ++ st.hist →
      snk'.out.toList = snk0.out.toList ++ data := by
    intro snk' h; rw [h, Array.toList_append, hlist]
  rcases opt with x | _
  · rcases x with _ | n
    · -- end marker
      have hT' := hT rfl
      subst hT'
      rw [hoM rfl, List.append_nil]
      rcases hu : dopts.unpackedSize with _ | y | y
      · obtain ⟨snk', h1, h2, h3⟩ := C01.lzma_decode_exact_marker ⟨3, 0, 2⟩ hp _ hD _ st hrun
          dopts hu hmem' snk0 hs0
        exact ⟨snk', hc, h1, fin h2, h3⟩
      · rcases y with _ | m
        · obtain ⟨snk', h1, h2, h3⟩ := lzma_decode_exact_header_ignored_marker ⟨3, 0, 2⟩ hp _ hD
            _ _ st hrun dopts hu hmem' snk0 hs0
          exact ⟨snk', hc, h1, fin h2, h3⟩
        · rw [hu] at hmatch; exact hmatch.elim
      · rw [hu] at hmatch; exact hmatch.elim
    · -- size in the header
      rw [hoN (by simp)]
      simp only [hdrSize]
      rcases hu : dopts.unpackedSize with _ | y | y
      · rw [hu] at hmatch
        obtain ⟨rfl, hn⟩ : n = data.length ∧ n < 0xFFFFFFFFFFFFFFFF := hmatch
        obtain ⟨snk', h1, h2, h3⟩ := C01.lzma_decode_exact_sized ⟨3, 0, 2⟩ hp _ hD _ st hrun
          (by omega) T dopts hu hmem' snk0 hs0
        rw [hsize] at h1
        exact ⟨snk', hc, h1, fin h2, h3⟩
      · rcases y with _ | m
        · rw [hu] at hmatch; exact hmatch.elim
        · rw [hu] at hmatch
          obtain rfl : m = data.length := hmatch
          rw [← hsize] at hu
          obtain ⟨snk', h1, h2, h3⟩ := lzma_decode_exact_header_ignored ⟨3, 0, 2⟩ hp _ hD n
            _ st hrun T dopts hu hmem' snk0 hs0
          exact ⟨snk', hc, h1, fin h2, h3⟩
      · rw [hu] at hmatch; exact hmatch.elim
  · -- no size field
    rw [hoN (by simp)]
    simp only [hdrSize]
    rcases hu : dopts.unpackedSize with _ | y | y
    · rw [hu] at hmatch; exact hmatch.elim
    · rw [hu] at hmatch; rcases y with _ | m <;> exact hmatch.elim
    · rcases y with _ | m
      · rw [hu] at hmatch; exact hmatch.elim
      · rw [hu] at hmatch
        obtain rfl : m = data.length := hmatch
        rw [← hsize] at hu
        obtain ⟨snk', h1, h2, h3⟩ := lzma_decode_exact_provided ⟨3, 0, 2⟩ hp _ hD
          _ st hrun T dopts hu hmem' snk0 hs0
        exact ⟨snk', hc, h1, fin h2, h3⟩

/-- `decOptions` (the canonical matching decoder options of `C04Lzma.lean`) match -/
theorem decOptions_matches (opt : EncSizeOpt) (len : Nat)
    (hopt : ∀ n, opt = .writeToHeader (some n) → n = len ∧ n < 0xFFFFFFFFFFFFFFFF) :
    DecMatches opt len (decOptions opt len).unpackedSize := by
  rcases opt with x | _
  · rcases x with _ | n
    · trivial
    · exact hopt n rfl
  · show len = len; rfl

theorem decOptions_memlimit (opt : EncSizeOpt) (len : Nat) :
    min len 0x00800000 ≤ (decOptions opt len).memlimit.getD USIZE_MAX := by
  have : (decOptions opt len).memlimit = none := by cases opt <;> rfl
  rw [this]
  show _ ≤ USIZE_MAX
  unfold USIZE_MAX U64
  omega

/-- **C04 (LZMA), round trip.**  For every input `data`, every read fragmentation `fr` of the
input reader, and every encoder option `opt` — where `WriteToHeader(Some(n))` must carry the true
length, `n = data.length`, expressible in the 8-byte field (`n < 2^64 − 1`; the crate documents
the value as unchecked, see `writeToHeader_wrong_size_no_roundtrip`) — `lzma_compress` succeeds,
and `lzma_decompress` with the matching option (`decOptions`: `ReadFromHeader` for both
`WriteToHeader` forms, `UseProvided(Some(len))` for `SkipWritingToHeader`) succeeds on its output,
consumes all of it, and returns exactly `data`.  No hypotheses about the decoder are left. -/
theorem lzma_enc_roundtrip (data : Bytes) (fr : List Nat) (opt : EncSizeOpt)
    (hopt : ∀ n, opt = .writeToHeader (some n) → n = data.length ∧ n < 0xFFFFFFFFFFFFFFFF) :
    ∃ snk snk', lzmaCompress { rem := data, frags := fr } opt {} = (snk, .ok ()) ∧
      lzmaDecompress (Rd.ofBytes snk.out.toList) (decOptions opt data.length) {} =
        (snk', .ok { rem := [] }) ∧
      snk'.out.toList = data := by
  obtain ⟨snk, snk', h1, h2, h3, -⟩ := lzma_enc_roundtrip_gen data fr opt (decOptions opt data.length)
    (decOptions_matches opt _ hopt) (decOptions_memlimit opt _) [] (fun _ => rfl) {} rfl
  rw [List.append_nil] at h2
  exact ⟨snk, snk', h1, h2, by simpa using h3⟩

/-- the statement asked for, with the uniform bound `data.length < 2^64 − 1` -/
theorem lzma_enc_roundtrip_bounded (data : Bytes) (hlen : data.length < 0xFFFFFFFFFFFFFFFF)
    (fr : List Nat) (opt : EncSizeOpt)
    (hopt : ∀ n, opt = .writeToHeader (some n) → n = data.length) :
    ∃ snk snk', lzmaCompress { rem := data, frags := fr } opt {} = (snk, .ok ()) ∧
      lzmaDecompress (Rd.ofBytes snk.out.toList) (decOptions opt data.length) {} =
        (snk', .ok { rem := [] }) ∧
      snk'.out.toList = data :=
  lzma_enc_roundtrip data fr opt (fun n h => ⟨hopt n h, by rw [hopt n h]; exact hlen⟩)

/-- **C04 (LZMA), round trip, the decoder stops exactly at the end of the encoder's output.**
For the two sized forms (`WriteToHeader(Some(len))` / `ReadFromHeader`, and "size omitted and
supplied out of band": `SkipWritingToHeader` / `UseProvided(Some(len))`), with ANY bytes `T`
following the encoder's output: the decoder returns exactly `data` and leaves the reader at `T`. -/
theorem lzma_enc_roundtrip_trailing (data : Bytes) (fr : List Nat) (opt : EncSizeOpt)
    (hne : opt ≠ .writeToHeader none)
    (hopt : ∀ n, opt = .writeToHeader (some n) → n = data.length ∧ n < 0xFFFFFFFFFFFFFFFF)
    (T : Bytes) :
    ∃ snk snk', lzmaCompress { rem := data, frags := fr } opt {} = (snk, .ok ()) ∧
      lzmaDecompress (Rd.ofBytes (snk.out.toList ++ T)) (decOptions opt data.length) {} =
        (snk', .ok { rem := T }) ∧
      snk'.out.toList = data := by
  obtain ⟨snk, snk', h1, h2, h3, -⟩ := lzma_enc_roundtrip_gen data fr opt (decOptions opt data.length)
    (decOptions_matches opt _ hopt) (decOptions_memlimit opt _) T (fun h => absurd h hne) {} rfl
  exact ⟨snk, snk', h1, h2, by simpa using h3⟩

/-- **the bound on `n` is needed (in the model, whose sizes are unbounded `Nat`s)**: for an input
of `2^64 + m` bytes (`m < 2^64 − 1`) and `WriteToHeader(Some(len))`, the size field wraps to `m`
and the decoder, if it succeeds, returns `m` bytes — not the input. -/
theorem lzma_enc_roundtrip_needs_bound (data : Bytes) (m : Nat) (hm : m < 0xFFFFFFFFFFFFFFFF)
    (hlen : data.length = 2 ^ 64 + m) (fr : List Nat) (snk snk' : Sink) (rd' : Rd)
    (hc : lzmaCompress { rem := data, frags := fr } (.writeToHeader (some data.length)) {} =
      (snk, .ok ()))
    (hd : lzmaDecompress (Rd.ofBytes snk.out.toList) {} {} = (snk', .ok rd')) :
    snk'.out.toList ≠ data := by
  obtain ⟨snk2, hc2, ho⟩ := dumb_enc_is_refenc data fr (.writeToHeader (some data.length)) 0
  rw [hc] at hc2
  obtain rfl : snk = snk2 := (Prod.mk.inj hc2).1
  rw [ho] at hd
  simp only [hdrSize, hlen] at hd
  have := size_field_wraps ⟨3, 0, 2⟩ (by decide) _ (by decide) m hm _ snk' rd' hd
  intro h
  have h2 : snk'.out.size = data.length := by rw [← Array.length_toList, h]
  omega

/-! ## non-vacuity: `data = [0x61, 0x62]` under the three option pairs -/

example : ∃ snk snk', lzmaCompress { rem := [0x61, 0x62] } (.writeToHeader none) {} = (snk, .ok ()) ∧
    lzmaDecompress (Rd.ofBytes snk.out.toList) {} {} = (snk', .ok { rem := [] }) ∧
    snk'.out.toList = [0x61, 0x62] :=
  lzma_enc_roundtrip [0x61, 0x62] [] (.writeToHeader none) (by intro n h; cases h)

example : ∃ snk snk', lzmaCompress { rem := [0x61, 0x62] } (.writeToHeader (some 2)) {} = (snk, .ok ()) ∧
    lzmaDecompress (Rd.ofBytes snk.out.toList) {} {} = (snk', .ok { rem := [] }) ∧
    snk'.out.toList = [0x61, 0x62] :=
  lzma_enc_roundtrip [0x61, 0x62] [] (.writeToHeader (some 2))
    (by intro n h; cases h; exact ⟨rfl, by decide⟩)

example : ∃ snk snk', lzmaCompress { rem := [0x61, 0x62] } .skipWritingToHeader {} = (snk, .ok ()) ∧
    lzmaDecompress (Rd.ofBytes snk.out.toList) { unpackedSize := .useProvided (some 2) } {} =
      (snk', .ok { rem := [] }) ∧
    snk'.out.toList = [0x61, 0x62] :=
  lzma_enc_roundtrip [0x61, 0x62] [] .skipWritingToHeader (by intro n h; cases h)

/-- with trailing bytes, size supplied out of band -/
example : ∃ snk snk', lzmaCompress { rem := [0x61, 0x62] } .skipWritingToHeader {} = (snk, .ok ()) ∧
    lzmaDecompress (Rd.ofBytes (snk.out.toList ++ [1, 2, 3]))
      { unpackedSize := .useProvided (some 2) } {} = (snk', .ok { rem := [1, 2, 3] }) ∧
    snk'.out.toList = [0x61, 0x62] :=
  lzma_enc_roundtrip_trailing [0x61, 0x62] [] .skipWritingToHeader (by decide)
    (by intro n h; cases h) [1, 2, 3]

/-- the general form: a (wrong) size written to the header, overridden by the caller; memory
limit 2; trailing bytes; all hypotheses hold -/
example : ∃ snk snk', lzmaCompress { rem := [0x61, 0x62] } (.writeToHeader (some 7)) {} = (snk, .ok ()) ∧
    lzmaDecompress (Rd.ofBytes (snk.out.toList ++ [9]))
      { unpackedSize := .readHeaderButUseProvided (some 2), memlimit := some 2 } {} =
      (snk', .ok { rem := [9] }) ∧
    snk'.out.toList = [] ++ [0x61, 0x62] ∧ snk'.lastFlush = true :=
  lzma_enc_roundtrip_gen [0x61, 0x62] [] (.writeToHeader (some 7))
    { unpackedSize := .readHeaderButUseProvided (some 2), memlimit := some 2 } rfl (by decide)
    [9] (by intro h; cases h) {} rfl

/-- `lzma_enc_output_wellformed`, instance: the program for `"ab"` with marker -/
example : encProg [0x61, 0x62] (.writeToHeader none) = [.lit 0x61, .lit 0x62, .eos] ∧
    expand 0x00800000 (encProg [0x61, 0x62] (.writeToHeader none)) = some [0x61, 0x62] := by
  decide

end Lzma.C04
