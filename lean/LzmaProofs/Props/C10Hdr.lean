/-
  C10 — the memory limit in effect for a raw decoder built in two steps
  (`LzmaParams::read_header(&options)` then `LzmaDecoder::new(params, memlimit)`) is the one given to
  `new`: the parsed parameters do not depend on the limit (or on `allow_incomplete`) the header was
  parsed under.  (Seeded change C10f-2 stored the limit in `LzmaParams`.)
-/
import LzmaModel.Lzma
namespace Lzma.C10

/-- `read_header` looks at `options.unpacked_size` only. -/
theorem readHeader_ignores_memlimit (rd : Rd) (opts : Options) (m : Option Nat) (ai : Bool) :
    readHeader rd { opts with memlimit := m, allowIncomplete := ai } = readHeader rd opts := rfl

/-- Hence the decoder object built in two steps is the same whatever limit the header was parsed
under; only the limit passed to `LzmaDecoder.new` is stored. -/
theorem two_step_decoder_limit (rd : Rd) (opts : Options) (m m' : Option Nat) :
    ((readHeader rd { opts with memlimit := m' }).bind fun p => LzmaDecoder.new p.1 m) =
    ((readHeader rd opts).bind fun p => LzmaDecoder.new p.1 m) := by
  rw [show ({ opts with memlimit := m' } : Options) = { opts with memlimit := m', allowIncomplete := opts.allowIncomplete } from rfl,
    readHeader_ignores_memlimit]

/-- non-vacuity: a 13-byte header parsed under limit 0 gives a decoder with the limit passed to `new` -/
example : ∃ d, ((readHeader (Rd.ofBytes [0x5d, 0, 0x10, 0, 0, 0xff, 0xff, 0xff, 0xff, 0xff, 0xff, 0xff, 0xff])
      { memlimit := some 0 }).bind fun p => LzmaDecoder.new p.1 (some 77)) = .ok d ∧ d.memlimit = 77 := by
  refine ⟨_, rfl, rfl⟩

end Lzma.C10
