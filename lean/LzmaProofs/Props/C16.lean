/-
  C16 — "a failed or completed stream stays failed or completed"
  (`decode/stream.rs`, model `LzmaModel/Stream.lean`).

  The call language (`Stream.Call`, `Stream.stepCall`, `Stream.runCalls`) is
  defined in `LzmaProofs/Lemmas/StreamBasic.lean`.
-/
import LzmaProofs.Lemmas.StreamBasic
namespace Lzma.C16
open Lzma.Stream

/-! ### a failed stream (`state = none`) latches -/

/-- After a failure (`state = none`): `write` reports `Ok(0)` and touches neither the sink
nor the stream; `flush` is a no-op; `finish` fails. Whole-sink equality covers `out`,
`writes`, `flushes`, the script and `lastFlush`. -/
theorem failed_latches (st : Stream) (data : Bytes) (snk : Sink) (h : st.state = none) :
    st.writeS data snk = (snk, st, .ok 0) ∧
    st.flush snk = (snk, .ok ()) ∧
    st.finish snk = (snk, .error .lzma) :=
  ⟨writeS_none st data snk h, flush_none st snk h, finish_none st snk h⟩

/-- … and the `Write` trait's `write_all` (std's default loop) cannot report a non-empty buffer as
written on a failed stream: it fails (`WriteZero`), leaving sink and stream alone. -/
theorem failed_latches_writeAll (st : Stream) (data : Bytes) (snk : Sink) (h : st.state = none)
    (hd : data ≠ []) : st.writeAll data snk = (snk, st, .error .io) := by
  cases data with
  | nil => exact absurd rfl hd
  | cons b bs =>
    have hf : feed (bs.length + 1 + 1) st (b :: bs) 0 snk = (snk, st, .ok 0) := by
      rw [feed]
      simp [writeS_none st (b :: bs) snk h]
    simp [Stream.writeAll, hf]

/-- non-vacuity: a stream that failed on a bad properties byte -/
example : ((Stream.newWithOptions {}).writeS [255] {}).2.1.state = none := by rfl

/-- A `write` that returns `Err` leaves the stream in the `none` state. -/
theorem write_error_leaves_none (st st' : Stream) (data : Bytes) (snk snk' : Sink) (e : Err)
    (h : st.writeS data snk = (snk', st', .error e)) : st'.state = none :=
  (writeS_error_state h).1

/-- non-vacuity: such a `write` exists -/
example : ((Stream.newWithOptions {}).writeS [255] {}).2.2 = .error .lzma := by rfl

/-- Once some `write` has returned an error (after an arbitrary earlier call sequence `pre`),
every later call sequence is inert: each call (`write` or `flush`) reports `ok 0`, neither
the sink nor the stream object changes, and `finish` reports an error without touching the sink. -/
theorem after_error_forever (pre later : List Call) (data : Bytes) (st st1 st2 : Stream)
    (snk snk1 snk2 : Sink) (rs1 : List (Except Err Nat)) (e : Err)
    (_hpre : runCalls pre st snk = (snk1, st1, rs1))
    (herr : st1.writeS data snk1 = (snk2, st2, .error e)) :
    runCalls later st2 snk2 = (snk2, st2, later.map fun _ => .ok 0) ∧
    st2.finish snk2 = (snk2, .error .lzma) := by
  have hnone := (writeS_error_state herr).1
  exact ⟨runCalls_none later st2 snk2 hnone, finish_none st2 snk2 hnone⟩

/-- The same as one call sequence: if the call at position `pre.length` (a `write`) returned
an error, then the sink after the whole sequence is the sink right after that call, all later
results are `ok 0`, and `finish` fails leaving the sink alone. -/
theorem after_error_forever_seq (pre later : List Call) (data : Bytes) (st st' : Stream)
    (snk snk' : Sink) (rs : List (Except Err Nat)) (e : Err)
    (hrun : runCalls (pre ++ Call.write data :: later) st snk = (snk', st', rs))
    (herr : rs[pre.length]? = some (.error e)) :
    snk' = (runCalls (pre ++ [Call.write data]) st snk).1 ∧
    rs.drop (pre.length + 1) = later.map (fun _ => .ok 0) ∧
    st'.state = none ∧
    st'.finish snk' = (snk', .error .lzma) := by
  rcases hpre : runCalls pre st snk with ⟨snk1, st1, rs1⟩
  rcases hw : st1.writeS data snk1 with ⟨snk2, st2, r⟩
  have hlen : rs1.length = pre.length := by
    have : ∀ (cs : List Call) (st : Stream) (snk : Sink), (runCalls cs st snk).2.2.length = cs.length := by
      intro cs
      induction cs with
      | nil => intros; rfl
      | cons c cs ih => intro st snk; simp [runCalls, ih]
    have h := this pre st snk
    rw [hpre] at h; exact h
  rcases hl : runCalls later st2 snk2 with ⟨snk3, st3, rs3⟩
  have hsingle : runCalls (pre ++ [Call.write data]) st snk = (snk2, st2, rs1 ++ [r]) := by
    rw [runCalls_append, hpre]; simp [runCalls, stepCall, hw]
  rw [runCalls_append, hpre] at hrun
  simp only [runCalls, stepCall, hw, hl, Prod.mk.injEq] at hrun
  obtain ⟨rfl, rfl, rfl⟩ := hrun
  have hr : r = .error e := by
    have : (rs1 ++ r :: rs3)[pre.length]? = some r := by
      rw [← hlen]; simp
    rw [this] at herr
    exact Option.some.inj herr
  subst hr
  obtain ⟨h1, h2⟩ := after_error_forever pre later data st st1 st2 snk snk1 snk2 rs1 e hpre hw
  rw [hl] at h1
  simp only [Prod.mk.injEq] at h1
  obtain ⟨rfl, rfl, rfl⟩ := h1
  refine ⟨by rw [hsingle], ?_, (writeS_error_state hw).1, h2⟩
  rw [← hlen]; simp

/-! ### a stream whose announced size is reached latches -/

/-- When the unpacked size announced in the header has been produced, a `write` accepts
nothing (`Ok(0)`), does not touch the sink, and keeps the run state (window, decoder,
range, code); the staging buffer is emptied. -/
theorem size_reached_latches (st : Stream) (rs : RunState) (n : Nat) (data : Bytes) (snk : Sink)
    (hst : st.state = some (.data rs)) (hn : rs.decoder.unpackedSize = some n)
    (hlen : rs.output.len ≥ n) :
    st.writeS data snk = (snk, { st with tmp := [], state := some (.data rs) }, .ok 0) := by
  unfold writeS
  rw [write_size_reached st rs data snk n hst hn hlen]

/-- … and `write_all` of a non-empty buffer fails (`WriteZero`) without touching the sink. -/
theorem size_reached_latches_writeAll (st : Stream) (rs : RunState) (n : Nat) (data : Bytes) (snk : Sink)
    (hst : st.state = some (.data rs)) (hn : rs.decoder.unpackedSize = some n)
    (hlen : rs.output.len ≥ n) (hd : data ≠ []) :
    st.writeAll data snk = (snk, { st with tmp := [], state := some (.data rs) }, .error .io) := by
  cases data with
  | nil => exact absurd rfl hd
  | cons b bs =>
    have hf : feed (bs.length + 1 + 1) st (b :: bs) 0 snk =
        (snk, { st with tmp := [], state := some (.data rs) }, .ok 0) := by
      rw [feed]
      simp [size_reached_latches st rs n (b :: bs) snk hst hn hlen]
    simp [Stream.writeAll, hf]

/-- … hence for every later sequence of writes: all report `ok 0`, the sink is unchanged,
the run state is unchanged. -/
theorem size_reached_latches_seq (st : Stream) (rs : RunState) (n : Nat) (ds : List Bytes)
    (snk : Sink)
    (hst : st.state = some (.data rs)) (hn : rs.decoder.unpackedSize = some n)
    (hlen : rs.output.len ≥ n) :
    ∃ st', st'.state = some (.data rs) ∧ st'.options = st.options ∧
      runCalls (ds.map Call.write) st snk = (snk, st', ds.map fun _ => .ok 0) := by
  induction ds generalizing st with
  | nil => exact ⟨st, hst, rfl, rfl⟩
  | cons d ds ih =>
    obtain ⟨st', h1, h2, h3⟩ := ih { st with tmp := [], state := some (.data rs) } rfl
    refine ⟨st', h1, h2, ?_⟩
    simp only [List.map_cons, runCalls, stepCall, size_reached_latches st rs n d snk hst hn hlen, h3]

theorem flushSink_out (snk : Sink) : (flushSink snk).1.out = snk.out := by
  unfold flushSink; split <;> rfl

/-- With `flush` calls mixed in: the sink's `out` never changes, every `write` reports
`ok 0`, the run state stays. (`flush` reaches the sink, so `flushes` may grow and a scripted
failure of the sink's `flush` is reported.) -/
theorem size_reached_latches_calls (st : Stream) (rs : RunState) (n : Nat) (cs : List Call)
    (snk : Sink)
    (hst : st.state = some (.data rs)) (hn : rs.decoder.unpackedSize = some n)
    (hlen : rs.output.len ≥ n) :
    (runCalls cs st snk).1.out = snk.out ∧
    (runCalls cs st snk).2.1.state = some (.data rs) ∧
    ∀ (i : Nat) (d : Bytes), cs[i]? = some (.write d) → (runCalls cs st snk).2.2[i]? = some (.ok 0) := by
  induction cs generalizing st snk with
  | nil => exact ⟨rfl, hst, by simp⟩
  | cons c cs ih =>
    cases c with
    | write d =>
      obtain ⟨h1, h2, h3⟩ := ih { st with tmp := [], state := some (.data rs) } snk rfl
      simp only [runCalls, stepCall, size_reached_latches st rs n d snk hst hn hlen]
      refine ⟨h1, h2, ?_⟩
      intro i d' hi
      cases i with
      | zero => simp
      | succ i => simpa using h3 i d' (by simpa using hi)
    | flush =>
      have hf : stepCall .flush st snk = ((flushSink snk).1, st,
          match (flushSink snk).2 with | .ok _ => .ok 0 | .error e => .error e) := by
        simp only [stepCall, flushS, Stream.flush, hst]
        rcases flushSink snk with ⟨s', (e | u)⟩ <;> rfl
      obtain ⟨h1, h2, h3⟩ := ih st (flushSink snk).1 hst
      simp only [runCalls, hf]
      refine ⟨by rw [h1, flushSink_out], h2, ?_⟩
      intro i d' hi
      cases i with
      | zero => simp at hi
      | succ i => simpa using h3 i d' (by simpa using hi)

/-- non-vacuity: a header announcing size 0 followed by the 5 range-coder bytes puts the
stream in the `data` state with the size already reached -/
example : ∃ rs, ((Stream.newWithOptions {}).writeS
      [0x5d, 0, 0, 1, 0, 0, 0, 0, 0, 0, 0, 0, 0, 0, 0, 0, 0, 0] {}).2.1.state = some (.data rs) ∧
    rs.decoder.unpackedSize = some 0 ∧ rs.output.len ≥ 0 :=
  ⟨_, rfl, rfl, Nat.zero_le _⟩

/-! ### the `header` state produces no output -/

/-- A single call made in the `header` state does not touch the sink at all. -/
theorem header_state_no_output_step (c : Call) (st : Stream) (snk : Sink)
    (h : st.state = some .header) : (stepCall c st snk).1 = snk := by
  cases c with
  | write data => exact writeS_header_sink st data snk h
  | flush => simp [stepCall, flushS, flush_header st snk h]

/-- While the stream is in the `header` state no call changes the sink: if after a call
sequence the stream is (still) in the `header` state, it was there all along and the sink
is exactly the initial one (in particular its `out`). -/
theorem header_state_no_output (cs : List Call) (st st' : Stream) (snk snk' : Sink)
    (rs : List (Except Err Nat))
    (h : runCalls cs st snk = (snk', st', rs)) (hst' : st'.state = some .header) :
    st.state = some .header ∧ snk' = snk ∧ snk'.out = snk.out := by
  obtain ⟨h1, h2⟩ := runCalls_to_header h hst'
  exact ⟨h1, h2, by rw [h2]⟩

/-- non-vacuity: a fresh stream fed 3 bytes stays in the `header` state -/
example : ((Stream.newWithOptions {}).writeS [0x5d, 0, 0] {}).2.1.state = some .header := by rfl

end Lzma.C16
