/-
  C05 (L3) — `MAX_REQUIRED_INPUT = 20` (`decode/lzma.rs`): decoding ONE symbol
  never consumes more than 20 input bytes; hence with at least 20 bytes
  available the range decoder never fails with end-of-input while decoding a
  symbol.

  Proof (`Lemmas/Need20.lean`, `Lemmas/Need20Sym.lean`): with probabilities in
  `[31, 2017]` a probability bit shrinks `range` by at most `31 * 8191 / 2^24`,
  a direct bit by at most `(2^24 - 1) / 2^25`, a consumed byte multiplies it by
  exactly 256, and `2^24 ≤ range < 2^32` between bits.  Every path of the
  symbol tree has at most 22 probability and 26 direct bits, or at most 23
  probability bits and no direct bit (which is cheaper), so `n` consumed bytes
  satisfy `256^n * 2^24 * 253921^22 * (2^24-1)^26 < 2^32 * 2^(24*22 + 25*26)`,
  which is false for `n = 21` — and true for `n = 20`: the margin is < 1 bit.
-/
import LzmaProofs.Lemmas.Need20Sym
namespace Lzma.C05
open Lzma Lzma.Safety Lzma.Need20

/-- **No symbol needs more than 20 bytes.**  For every decoder context whose
window reads do not themselves report end-of-data (`CtxNoEnd`; true of every
context the decoders build: `mkCtx_noEnd_circ`, `mkCtx_noEnd_accum`), every
probability table with values in `[31, 2017]` (no index validity needed),
every range-decoder state between two symbols, real run and dry run alike:

* with at least 20 bytes in the reader, decoding one symbol does not fail with
  the reader's end-of-data error (`.eof`, or `.io` for a faulty reader);
* a successfully decoded symbol consumed at most 20 bytes (whatever the length
  of the reader), and the invariants hold again. -/
theorem symbol_needs_at_most_20 (u : Bool) (c : Ctx) (hc : CtxNoEnd c) (p : Probs)
    (hp : ProbsInv p) (rc : RC) (hrc : RCInv rc) (rd : Rd) :
    (20 ≤ rd.rem.length → runDec u (symTree c) p rc rd ≠ .error rd.endErr) ∧
    (20 ≤ rd.rem.length → rd.bad = false → runDec u (symTree c) p rc rd ≠ .error .eof) ∧
    (∀ x p' rc' rd', runDec u (symTree c) p rc rd = .ok (x, p', rc', rd') →
      ProbsInv p' ∧ RCInv rc' ∧ rd'.bad = rd.bad ∧
        ∃ n, rd'.rem.length + n = rd.rem.length ∧ n ≤ 20) := by
  have h := runDec_bytes_le probs_storeOk u (symTree_pathBound hc) symP_dom need20_num hp hrc
    (rd := rd)
  refine ⟨h.1, ?_, fun x p' rc' rd' he => (h.2 x p' rc' rd' he).2⟩
  intro hlen hbad
  have := h.1 hlen
  simpa [Rd.endErr, hbad] using this

/-- the form used by the streaming decoder: the dry run on a 20-byte (or longer)
buffer fails only for reasons other than running out of input -/
theorem tryProcessNext_full_buffer {ω : Type} [LzBuf ω] (s : DState) (w : ω) (buf : Bytes)
    (rc : RC) (hc : CtxNoEnd (s.mkCtx w)) (hp : ProbsInv s.probs) (hrc : RCInv rc)
    (hlen : DState.MAX_REQUIRED_INPUT ≤ buf.length) :
    runDec false (symTree (s.mkCtx w)) s.probs rc (Rd.ofBytes buf) ≠ .error .eof :=
  (symbol_needs_at_most_20 false _ hc _ hp rc hrc (Rd.ofBytes buf)).2.1 hlen rfl

/-- The margin is real: the counting argument does not give 19 — the closed
inequality that excludes 21 bytes does not exclude 20. -/
theorem need20_tight :
    2 ^ 32 * 2 ^ (24 * 22 + 25 * 26) ≤ 256 ^ 21 * 2 ^ 24 * (253921 ^ 22 * (2 ^ 24 - 1) ^ 26) ∧
    ¬ 2 ^ 32 * 2 ^ (24 * 22 + 25 * 26) ≤ 256 ^ 20 * 2 ^ 24 * (253921 ^ 22 * (2 ^ 24 - 1) ^ 26) := by
  constructor <;> decide +kernel

/-- the bound "22 probability bits" of the informal argument is not literally
true of the tree (a `pos_slot` of 12 has 23 and no direct bit) -/
theorem symTree_has_23_bit_path (c : Ctx) : ¬ BitBound (fun _ => True) 22 26 (symTree c) :=
  symTree_not_bitBound_22 c _ 26

/-! ### non-vacuity -/

/-- a concrete context, fresh tables, the initial range-decoder state and a
20-byte reader meet all hypotheses -/
example :
    CtxNoEnd { state := 0, posState := 0, litRow := .ok 0, matchByte := .ok 0 } ∧
      ProbsInv (Probs.init 8) ∧ RCInv ⟨0xFFFFFFFF, 0⟩ ∧
      20 ≤ (Rd.ofBytes (List.replicate 20 0)).rem.length ∧
      (Rd.ofBytes (List.replicate 20 0)).bad = false :=
  ⟨⟨fun e h => (by cases h), fun e h => (by cases h)⟩, ProbsInv_init 8,
    (by unfold RCInv; decide), (by decide), rfl⟩

/-- … and the run on that instance really succeeds (a literal, one byte consumed) -/
example :
    (match runDec true (symTree { state := 0, posState := 0, litRow := .ok 0, matchByte := .ok 0 })
        (Probs.init 8) ⟨0xFFFFFFFF, 0⟩ (Rd.ofBytes (List.replicate 20 0)) with
      | .ok (x, _, _, rd) => x == .lit 0 && rd.rem.length == 19
      | .error _ => false) = true := by decide +kernel

/-- the contexts of the real decoders meet `CtxNoEnd` -/
example (s : DState) (w : Circ) : CtxNoEnd (s.mkCtx w) := mkCtx_noEnd_circ s w
example (s : DState) (w : Accum) : CtxNoEnd (s.mkCtx w) := mkCtx_noEnd_accum s w

end Lzma.C05
