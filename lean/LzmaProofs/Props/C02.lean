/-
  C02 — framing core: what `parse_uncompressed` and the control byte of `parse_lzma` do, and
  exact decoding of every well-formed sequence of UNCOMPRESSED chunks.
-/
import LzmaProofs.Lemmas.Lzma2
set_option linter.unusedSimpArgs false
namespace Lzma.C02
open Lzma Lzma.L2 Lzma2Decoder

/-! ### `LzAccumBuffer::reset` flushes the history to the sink and forgets it -/

theorem accum_reset_spec {a a0 : Accum} {s s' : Sink} :
    a.reset s = (s', .ok a0) ↔
      writeAll a.buf s = (s', .ok ()) ∧ a0 = { a with buf := #[], len := 0 } := by
  unfold Accum.reset
  constructor
  · intro h
    obtain ⟨_, s1, h1, h2⟩ := bind_ok_inv h
    simp at h2
    obtain ⟨rfl, rfl⟩ := h2
    exact ⟨h1, rfl⟩
  · rintro ⟨h1, rfl⟩
    rw [bind_run_ok h1]; rfl

/-! ### `parse_uncompressed` -/

/-- `parse_uncompressed` succeeds iff the reader holds two size bytes `b1 b2` followed by at
least `n = b1·256 + b2 + 1` bytes; it then has read exactly those `2 + n` bytes, appended the
`n` data bytes to the window, and — iff `reset_dict` was asked — first flushed the history to
the sink and emptied the window. -/
theorem parseUncompressed_spec {a a' : Accum} {rd rd' : Rd} {resetDict : Bool} {s s' : Sink} :
    parseUncompressed a rd resetDict s = (s', .ok (a', rd')) ↔
      ∃ (b1 b2 : UInt8) (data rest : Bytes) (a0 : Accum),
        rd.rem = b1 :: b2 :: (data ++ rest) ∧
        data.length = b1.toNat * 256 + b2.toNat + 1 ∧
        (if resetDict then
            writeAll a.buf s = (s', .ok ()) ∧ a0 = { a with buf := #[], len := 0 }
          else s' = s ∧ a0 = a) ∧
        a' = a0.appendBytes data ∧ rd' = { rd with rem := rest } := by
  rw [parseUncompressed_ok_iff]
  constructor
  · rintro ⟨b1, b2, data, rest, a0, h1, h2, h3, h4, h5⟩
    refine ⟨b1, b2, data, rest, a0, h1, h2, ?_, h4, h5⟩
    cases resetDict
    · simp at h3 ⊢; exact ⟨h3.1.symm, h3.2.symm⟩
    · simp only [if_true] at h3 ⊢; exact accum_reset_spec.1 h3
  · rintro ⟨b1, b2, data, rest, a0, h1, h2, h3, h4, h5⟩
    refine ⟨b1, b2, data, rest, a0, h1, h2, ?_, h4, h5⟩
    cases resetDict
    · simp at h3 ⊢; exact ⟨h3.1.symm, h3.2.symm⟩
    · simp only [if_true] at h3 ⊢; exact accum_reset_spec.2 h3

/-- the number of bytes read and the new window length -/
theorem parseUncompressed_counts {a a' : Accum} {rd rd' : Rd} {resetDict : Bool} {s s' : Sink}
    (h : parseUncompressed a rd resetDict s = (s', .ok (a', rd'))) :
    ∃ n, 1 ≤ n ∧ n ≤ 65536 ∧ n = beVal (rd.rem.take 2) + 1 ∧
      rd.rem.length = 2 + n + rd'.rem.length ∧ rd'.rem = rd.rem.drop (2 + n) ∧
      a'.len = (if resetDict then 0 else a.len) + n ∧
      a'.buf = (if resetDict then #[] else a.buf) ++ ((rd.rem.drop 2).take n).toArray := by
  obtain ⟨b1, b2, data, rest, a0, h1, h2, h3, rfl, rfl⟩ := parseUncompressed_spec.1 h
  have := b1.toNat_lt; have := b2.toNat_lt
  refine ⟨data.length, by omega, by omega, ?_, ?_, ?_, ?_, ?_⟩
  · rw [h1, h2]; simp [beVal]
  · rw [h1]; simp; omega
  · rw [h1, show 2 + data.length = data.length + 1 + 1 by omega]
    simp
  · cases resetDict
    · simp at h3 ⊢; rw [h3.2]; simp [Accum.appendBytes]
    · simp only [if_true] at h3 ⊢; rw [h3.2]; simp [Accum.appendBytes]
  · cases resetDict
    · simp at h3 ⊢; rw [h3.2, h1]; simp [Accum.appendBytes]
    · simp only [if_true] at h3 ⊢; rw [h3.2, h1]; simp [Accum.appendBytes]


/-! ### the control byte of a compressed chunk -/

/-- **Control dispatch.**  `parse_lzma` succeeds iff bit 7 of the control byte is set, four size
bytes follow, and with `cls = (status >> 5) & 3`:
* `cls = 3` ⇒ the dictionary is reset (`LzAccumBuffer::reset`: history flushed to the sink,
  window emptied) — and only then;
* `cls = 0` ⇒ the decoder state is kept; `cls = 1` ⇒ `reset_state` with the PREVIOUS properties;
  `cls ≥ 2` ⇒ one property byte `b < 225` with `lc + lp ≤ 4` is read and `reset_state` is
  called with the NEW properties `lc = b % 9, lp = b / 9 % 5, pb = b / 45`;
* the target length handed to the symbol loop is `len(window after the reset) + unpacked_size`
  where `unpacked_size = (((status & 0x1F) << 16) | u16) + 1`;
* the payload is decoded from the `Take` of `packed_size = p16 + 1` bytes, after which the
  range decoder must be exhausted; the reader continues right behind those bytes. -/
theorem control_dispatch {d d' : Lzma2Decoder} {a a' : Accum} {rd rd' : Rd} {status : Nat}
    {s s' : Sink} :
    parseLzma d a rd status s = (s', .ok (d', a', rd')) ↔
      status &&& 0x80 ≠ 0 ∧
      ∃ (u1 u2 p1 p2 : UInt8) (rest : Bytes) (s0 : Sink) (a0 : Accum) (st0 : DState) (rd3 : Rd)
        (rc : RC) (tk : Rd) (st1 : DState) (rc1 : RC) (tk1 : Rd),
        rd.rem = u1 :: u2 :: p1 :: p2 :: rest ∧
        (if (status >>> 5) &&& 0x3 = 3 then
            writeAll a.buf s = (s0, .ok ()) ∧ a0 = { a with buf := #[], len := 0 }
          else s0 = s ∧ a0 = a) ∧
        (((status >>> 5) &&& 0x3 = 0 ∧ st0 = d.lzmaState ∧ rd3 = { rd with rem := rest }) ∨
         ((status >>> 5) &&& 0x3 = 1 ∧ d.lzmaState.resetState d.lzmaState.props = .ok st0 ∧
            rd3 = { rd with rem := rest }) ∨
         ((status >>> 5) &&& 0x3 ≥ 2 ∧ ∃ (b : UInt8) (rest' : Bytes), rest = b :: rest' ∧
            b.toNat < 225 ∧ b.toNat % 9 + b.toNat / 9 % 5 ≤ 4 ∧
            d.lzmaState.resetState { lc := b.toNat % 9, lp := b.toNat / 9 % 5, pb := b.toNat / 9 / 5 }
              = .ok st0 ∧ rd3 = { rd with rem := rest' })) ∧
        RC.new (rd3.split (p1.toNat * 256 + p2.toNat + 1)).1 = .ok (rc, tk) ∧
        (st0.setUnpackedSize (some ((((status &&& 0x1F) <<< 16) ||| (u1.toNat * 256 + u2.toNat)) + 1
            + a0.len))).processMode .finish a0 rc tk s0 = (s', .ok (st1, a', rc1, tk1)) ∧
        rc1.code = 0 ∧ tk1.rem = [] ∧ tk1.bad = false ∧
        d' = { lzmaState := st1 } ∧
        rd' = { rd3 with rem := rd3.rem.drop (p1.toNat * 256 + p2.toNat + 1) } := by
  rw [parseLzma_eq_NF, parseLzmaNF_ok_iff]
  constructor
  · rintro ⟨h80, u1, u2, p1, p2, rest, s0, a0, st0, rd3, rc, tk, st1, rc1, tk1, hr, h3, h4, g1, g2,
      g3, g4, g5, g6, g7⟩
    refine ⟨h80, u1, u2, p1, p2, rest, s0, a0, st0, rd3, rc, tk, st1, rc1, tk1, hr, ?_, ?_, g1, ?_,
      g3, g4, g5, g6, g7⟩
    · split at h3
      · rw [if_pos (by assumption)]; exact accum_reset_spec.1 h3
      · rw [if_neg (by assumption)]; simp at h3; exact ⟨h3.1.symm, h3.2.symm⟩
    · exact propsStage_ok_iff.1 h4
    · rw [lzProc_eq] at g2; exact g2
  · rintro ⟨h80, u1, u2, p1, p2, rest, s0, a0, st0, rd3, rc, tk, st1, rc1, tk1, hr, h3, h4, g1, g2,
      g3, g4, g5, g6, g7⟩
    refine ⟨h80, u1, u2, p1, p2, rest, s0, a0, st0, rd3, rc, tk, st1, rc1, tk1, hr, ?_, ?_, g1, ?_,
      g3, g4, g5, g6, g7⟩
    · split at h3
      · rw [if_pos (by assumption)]; exact accum_reset_spec.2 h3
      · rw [if_neg (by assumption)]; simp; exact ⟨h3.1.symm, h3.2.symm⟩
    · exact propsStage_ok_iff.2 h4
    · rw [lzProc_eq]; exact g2

/-- `reset_state` resets everything except `partial_input_buf` and `unpacked_size`: state and
reps to 0, all probabilities to 0x400, literal table re-sized only if `lc + lp` changed -/
theorem resetState_spec {st st' : DState} {p : Props} (h : st.resetState p = .ok st') :
    st'.props = p ∧ st'.state = 0 ∧ st'.rep0 = 0 ∧ st'.rep1 = 0 ∧ st'.rep2 = 0 ∧ st'.rep3 = 0 ∧
    st'.partialBuf = st.partialBuf ∧ st'.unpackedSize = st.unpackedSize ∧
    st'.probs.posSlot = Array.replicate 256 0x400 ∧ st'.probs.isMatch = Array.replicate 192 0x400 ∧
    (∀ i, (h : i < st'.probs.lit.size) → st'.probs.lit[i] = 0x400) := by
  unfold DState.resetState at h
  obtain ⟨_, -, h⟩ := Except.bind_ok_inv h
  simp [pure, Except.pure] at h
  subst h
  refine ⟨rfl, rfl, rfl, rfl, rfl, rfl, rfl, rfl, rfl, rfl, ?_⟩
  intro i hi
  dsimp only at hi ⊢
  split <;> simp


/-! ### exact decoding of every well-formed sequence of uncompressed chunks -/

/-- encoding of one uncompressed chunk: control 1 (dictionary reset) or 2, big-endian
`size - 1`, the data -/
def encRaw (b : Bool × Bytes) : Bytes :=
  (if b.1 then 1 else 2) :: (beBytes 2 (b.2.length - 1) ++ b.2)

/-- an LZMA2 stream of uncompressed chunks, with its end byte -/
def encRawStream (blocks : List (Bool × Bytes)) : Bytes := blocks.flatMap encRaw ++ [0]

theorem writeAll_perfect_spec {bs : Array UInt8} {s : Sink} (hs : s.script = []) :
    ∃ s', writeAll bs s = (s', .ok ()) ∧ s'.script = [] ∧ s'.out = s.out ++ bs ∧
      s'.flushes = s.flushes := by
  unfold writeAll
  split
  · rename_i h
    have : bs = #[] := by simpa using h
    exact ⟨s, rfl, hs, by simp [this], rfl⟩
  · simp [hs]

/-- running a list of raw chunks on a perfect sink: sink ++ window grows by exactly the data -/
theorem run_raw (d : Lzma2Decoder) : ∀ (blocks : List (Bool × Bytes)) (a : Accum) (s : Sink),
    s.script = [] →
    ∃ a' s', Run (blocks.map fun b => Chunk.raw b.1 b.2) d a s d a' s' ∧ s'.script = [] ∧
      s'.out ++ a'.buf = s.out ++ a.buf ++ (blocks.flatMap (·.2)).toArray ∧
      s'.flushes = s.flushes := by
  intro blocks
  induction blocks with
  | nil => intro a s hs; exact ⟨a, s, Run.nil _ _ _, hs, by simp, rfl⟩
  | cons b blocks ih =>
    intro a s hs
    obtain ⟨r, data⟩ := b
    -- the optional reset
    have hreset : ∃ s1 a0, (if r then a.reset else pure a) s = (s1, .ok a0) ∧ s1.script = [] ∧
        s1.out ++ a0.buf = s.out ++ a.buf ∧ s1.flushes = s.flushes := by
      cases r
      · exact ⟨s, a, rfl, hs, rfl, rfl⟩
      · obtain ⟨s1, h1, h2, h3, h4⟩ := writeAll_perfect_spec (bs := a.buf) hs
        exact ⟨s1, { a with buf := #[], len := 0 }, accum_reset_spec.2 ⟨h1, rfl⟩, h2,
          by simp [h3], h4⟩
    obtain ⟨s1, a0, h1, h2, h3, h4⟩ := hreset
    obtain ⟨a', s', hrun, g1, g2, g3⟩ := ih (a0.appendBytes data) s1 h2
    refine ⟨a', s', Run.cons ⟨rfl, a0, h1, rfl⟩ hrun, g1, ?_, by rw [g3, h4]⟩
    rw [g2]
    simp only [Accum.appendBytes, List.flatMap_cons]
    rw [← Array.append_assoc, h3]
    simp

/-- **Uncompressed chunk sequences decode exactly.**  For every list of non-empty data blocks
of at most 65536 bytes, each stored with or without a dictionary reset, followed by ANY trailing
bytes, `lzma2_decompress` on a perfect sink returns `Ok`, has appended exactly the
concatenation of the blocks to the sink (then flushed it once), and leaves the reader exactly
at the trailing bytes. -/
theorem uncompressed_sequence_exact (blocks : List (Bool × Bytes))
    (hb : ∀ b ∈ blocks, 1 ≤ b.2.length ∧ b.2.length ≤ 65536) (t : Bytes) (s : Sink)
    (hs : s.script = []) :
    ∃ s', lzma2Decompress (Rd.ofBytes (encRawStream blocks ++ t)) s = (s', .ok (Rd.ofBytes t)) ∧
      s'.out = s.out ++ (blocks.flatMap (·.2)).toArray ∧ s'.script = [] ∧
      s'.flushes = s.flushes + 1 ∧ s'.lastFlush = true := by
  obtain ⟨a', s1, hrun, g1, g2, g3⟩ :=
    run_raw Lzma2Decoder.init blocks (Accum.fromStream USIZE_MAX) s hs
  obtain ⟨s2, k1, k2, k3, k4⟩ := writeAll_perfect_spec (bs := a'.buf) g1
  have hfin : a'.finish s1 = ({ s2 with flushes := s2.flushes + 1, lastFlush := true }, .ok ()) := by
    unfold Accum.finish
    rw [bind_run_ok k1]
    simp [flushSink, k2]
  refine ⟨_, lzma2Decompress_ok_iff.2 ⟨blocks.map fun b => Chunk.raw b.1 b.2, Lzma2Decoder.init,
    a', s1, ?_, ?_, rfl, hrun, hfin⟩, ?_, k2, ?_, rfl⟩
  · intro c hc
    obtain ⟨b, hbm, rfl⟩ := List.mem_map.1 hc
    exact hb b hbm
  · simp only [Rd.ofBytes, encRawStream, List.flatMap_map]
    have : (fun b : Bool × Bytes => (Chunk.raw b.1 b.2).bytes) = encRaw := by
      funext b; cases h : b.1 <;> simp [Chunk.bytes, Chunk.control, Chunk.body, encRaw, h]
    rw [this]; simp
  · show s2.out = _
    rw [k3, g2]; simp [Accum.fromStream]
  · show s2.flushes + 1 = _
    rw [k4, g3]

/-- non-vacuity / sanity: "abc" with a dictionary reset then "de" without, followed by junk -/
example : ∃ s', lzma2Decompress (Rd.ofBytes
      ([1, 0, 2, 0x61, 0x62, 0x63, 2, 0, 1, 0x64, 0x65, 0] ++ [0xFF, 0xFF])) {}
      = (s', .ok (Rd.ofBytes [0xFF, 0xFF])) ∧
    s'.out = #[0x61, 0x62, 0x63, 0x64, 0x65] := by
  obtain ⟨s', h1, h2, -⟩ := uncompressed_sequence_exact
    [(true, [0x61, 0x62, 0x63]), (false, [0x64, 0x65])] (by decide) [0xFF, 0xFF] {} rfl
  exact ⟨s', h1, h2⟩

/-- the task's example, by evaluation of the model in the kernel -/
example : (lzma2Decompress (Rd.ofBytes [1, 0, 2, 0x61, 0x62, 0x63, 0]) {}).1.out
    = #[0x61, 0x62, 0x63] := by decide +kernel

end Lzma.C02
