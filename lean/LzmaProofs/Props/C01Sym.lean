/-
  C01 — the symbol layer of the LZMA decoder/encoder round trip.

  `symTree` (the bit-level decision tree of `process_next_inner`) followed along
  the events a conforming encoder emits for a raw symbol (`rawSymEvents`)
  returns exactly that symbol and consumes exactly those events; no probability
  index is used twice for one symbol, hence the dry run of `try_process_next`
  (`update = false`) reads the same bits as the real run.
-/
import LzmaProofs.Lemmas.SymLayerDist
import LzmaProofs.Lemmas.SymLayerNoDup
namespace Lzma.C01
open Lzma

/-- **Symbol round trip.**  `RawSym.WF`: `.lit b` with `b < 256`; `.shortRep`;
`.rep idx l` with `idx ≤ 3 ∧ l < 272`; `.mtch l d` with `l < 272 ∧ d < 2^32`
(`d` = distance − 1, so the end marker `0xFFFFFFFF` is included).  The literal
row and the match byte are only demanded where the decoder demands them; no
bound on the match byte is needed. -/
theorem sym_roundtrip (c : Ctx) (e : ECtx) (s : RawSym)
    (hstate : c.state = e.state) (hpos : c.posState = e.posState)
    (hrow : (∃ b, s = .lit b) → c.litRow = .ok e.litRow)
    (hmb : (∃ b, s = .lit b) → e.state ≥ 7 → c.matchByte = .ok e.matchByte)
    (hs : s.WF) (rest : List Ev) :
    runEv (symTree c) (rawSymEvents e s ++ rest) = some (s, rest) :=
  sym_roundtrip_lemma c e s ⟨hstate, hpos, hrow, hmb⟩ hs rest

/-- the same with the unconditional context hypotheses -/
theorem sym_roundtrip' (c : Ctx) (e : ECtx) (s : RawSym)
    (hstate : c.state = e.state) (hpos : c.posState = e.posState)
    (hrow : c.litRow = .ok e.litRow) (hmb : c.matchByte = .ok e.matchByte)
    (hs : s.WF) (rest : List Ev) :
    runEv (symTree c) (rawSymEvents e s ++ rest) = some (s, rest) :=
  sym_roundtrip c e s hstate hpos (fun _ => hrow) (fun _ _ => hmb) hs rest

/-- non-vacuity: a concrete context (state 8, so literals use the matched loop)
meets the hypotheses for the end marker with maximal length, an ordinary match
and a literal -/
example : ∀ s ∈ [RawSym.mtch 271 0xFFFFFFFF, .mtch 5 1234567, .lit 0xA5, .rep 3 271, .shortRep],
    runEv (symTree { state := 8, posState := 3, litRow := .ok 5, matchByte := .ok 0x5A })
      (rawSymEvents { state := 8, posState := 3, litRow := 5, matchByte := 0x5A } s ++ [.dbit true])
      = some (s, [.dbit true]) := by
  intro s hs
  refine sym_roundtrip' _ _ s rfl rfl rfl rfl ?_ _
  simp only [List.mem_cons, List.not_mem_nil, or_false] at hs
  rcases hs with rfl | rfl | rfl | rfl | rfl <;> decide

/-- the statement evaluated on a concrete match (slot 40, 15 direct bits, 4 align bits) -/
example :
    runEv (symTree { state := 0, posState := 1, litRow := .ok 0, matchByte := .ok 0 })
      (rawSymEvents { state := 0, posState := 1, litRow := 0, matchByte := 0 } (.mtch 5 1234567))
      = some (.mtch 5 1234567, []) := by
  decide +kernel

/-- **No probability is used twice for one symbol**: on every root-to-leaf path
of `symTree c` no probability index occurs twice. -/
theorem symTree_nodup (c : Ctx) : (symTree c).NoDup := symTree_nodup_lemma c

/-- the same in terms of paths: the `pbit` indices of the events consumed by
`symTree c` are pairwise distinct -/
theorem symTree_paths_nodup (c : Ctx) (evs rest : List Ev) (s : RawSym)
    (h : runEv (symTree c) evs = some (s, rest)) :
    ∃ used, evs = used ++ rest ∧ (used.filterMap Ev.idx?).Nodup := by
  obtain ⟨u, hu, hnd, _⟩ := Coder.NoDupAux.path (symTree_nodup c) h
  exact ⟨u, hu, hnd⟩

/-- **The dry run reads the same bits.**  For a tree without duplicate index on
any path, over a lawful store all of whose readable probabilities are `≤ 0x800`,
`runDec false` and `runDec true` return the same value, coder state and reader,
and fail in exactly the same cases with the same error; only the store differs.

`_partial`: the hypothesis `hb` cannot be dropped — see
`runDec_update_relevant_of_bad_prob`: with a probability `> 0x800` the real run
panics on `0x800 - prob` while the dry run does not look at it. -/
theorem runDec_update_irrelevant_partial {σ ι α : Type} [ProbStore σ ι] [LawfulProbStore σ ι]
    (t : Coder ι α) (ht : t.NoDup) (s : σ)
    (hb : ∀ i v, ProbStore.get s i = .ok v → v ≤ 0x800) (rc : RC) (rd : Rd) :
    (runDec false t s rc rd).map (fun r => (r.1, r.2.2.1, r.2.2.2)) =
    (runDec true t s rc rd).map (fun r => (r.1, r.2.2.1, r.2.2.2)) :=
  runDec_update_irrelevant_aux t _ ht s s hb (fun _ _ => rfl) rc rd

/-- `Probs` is such a store -/
example : LawfulProbStore Probs PIdx := inferInstance

/-- the instance for one LZMA symbol: `try_process_next` succeeds iff
`process_next_inner` gets through its bit decoding -/
theorem symTree_update_irrelevant (c : Ctx) (p : Probs)
    (hb : ∀ i v, p.get i = .ok v → v ≤ 0x800) (rc : RC) (rd : Rd) :
    (runDec false (symTree c) p rc rd).map (fun r => (r.1, r.2.2.1, r.2.2.2)) =
    (runDec true (symTree c) p rc rd).map (fun r => (r.1, r.2.2.1, r.2.2.2)) :=
  runDec_update_irrelevant_partial (symTree c) (symTree_nodup c) p hb rc rd

/-- non-vacuity: freshly initialised tables meet `hb` -/
example (k : Nat) : ∀ i v, (Probs.init k).get i = .ok v → v ≤ 0x800 := by
  intro i v h; rw [Probs.init_get k i v h]; decide

/-- a store whose every cell reads `0x801` -/
structure BadStore where
instance : ProbStore BadStore Unit := ⟨fun _ _ => .ok 0x801, fun s _ _ => s⟩
instance : LawfulProbStore BadStore Unit := ⟨fun _ _ _ _ _ _ _ => rfl⟩

/-- why `hb` is needed: one probability bit on a store cell holding `0x801`;
the dry run decodes it, the real run panics in `0x800 - prob` -/
theorem runDec_update_relevant_of_bad_prob :
    ∃ (t : Coder Unit Bool) (rc : RC) (rd : Rd), t.NoDup ∧
      (runDec false t BadStore.mk rc rd).map (fun r => (r.1, r.2.2.1, r.2.2.2))
        = .ok (false, ⟨0x801 * 0x100000, 0⟩, Rd.ofBytes []) ∧
      (runDec true t BadStore.mk rc rd).map (fun r => (r.1, r.2.2.1, r.2.2.2))
        = .error (.panic "decode_bit: 0x800 - prob") :=
  ⟨.bit () fun b => .ret b, ⟨0x80000000, 0⟩, Rd.ofBytes [],
    ⟨fun h => h, fun _ => trivial⟩, by rfl, by rfl⟩

/-- the direction that needs no bound on the probabilities: whenever the real
run succeeds, the dry run succeeds with the same value, coder state and reader
(and leaves the store alone) -/
theorem runDec_true_ok_imp_dry_ok {σ ι α : Type} [ProbStore σ ι] [LawfulProbStore σ ι]
    (t : Coder ι α) (ht : t.NoDup) (s : σ) (rc : RC) (rd : Rd) (r : α × σ × RC × Rd)
    (h : runDec true t s rc rd = .ok r) :
    runDec false t s rc rd = .ok (r.1, s, r.2.2.1, r.2.2.2) :=
  runDec_true_ok_aux t _ ht s s (fun _ _ => rfl) rc rd h

end Lzma.C01
