import LzmaGen.Proto
import LzmaGen.Gen
