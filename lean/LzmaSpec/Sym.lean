/-
  LzmaSpec.Sym — format-level specification artefacts for LZMA:
  symbol programs, their meaning (`expand`) on an unbounded history, the event
  sequence a conforming encoder emits for a symbol (`symEvents`), and the
  reference encoder `encodeSyms` on top of the modelled range encoder (extended
  with direct bits).  Independent of the decoder model's control flow.
-/
import LzmaModel.Decoder
import LzmaModel.Encoder
namespace Lzma

/-- LZMA symbols at the format level (`dist ≥ 1` is the real distance, `len` the
real length 2..273) -/
inductive Sym where
  | lit (b : UInt8)
  | mtch (dist len : Nat)
  | shortRep
  | rep (idx len : Nat)
  | eos
  deriving Repr, DecidableEq, Inhabited

/-- semantic state of a symbol program -/
structure SpecSt where
  hist : Array UInt8 := #[]
  state : Nat := 0
  rep0 : Nat := 0       -- distances minus one, as in the format
  rep1 : Nat := 0
  rep2 : Nat := 0
  rep3 : Nat := 0
  deriving Repr, Inhabited

namespace SpecSt

/-- copy `len` bytes from distance `dist` (overlap allowed) -/
def copy : Nat → Nat → Array UInt8 → Option (Array UInt8)
  | 0, _, h => some h
  | n+1, dist, h =>
    if dist = 0 ∨ dist > h.size then none
    else match h[h.size - dist]? with
      | some b => copy n dist (h.push b)
      | none => none

def litState (s : Nat) : Nat := if s < 4 then 0 else if s < 10 then s - 3 else s - 6

/-- meaning of one symbol under dictionary limit `dict`; `none` = ill-formed here;
`some (st, true)` = end marker -/
def step (dict : Nat) (st : SpecSt) : Sym → Option (SpecSt × Bool)
  | .lit b => some ({ st with hist := st.hist.push b, state := litState st.state }, false)
  | .mtch dist len =>
    if dist = 0 ∨ dist > dict ∨ dist > 0xFFFFFFFF ∨ len < 2 ∨ len > 273 then none
    else (copy len dist st.hist).map fun h =>
      ({ st with hist := h, rep3 := st.rep2, rep2 := st.rep1, rep1 := st.rep0, rep0 := dist - 1,
                 state := if st.state < 7 then 7 else 10 }, false)
  | .shortRep =>
    if st.rep0 + 1 > dict then none
    else (copy 1 (st.rep0 + 1) st.hist).map fun h =>
      ({ st with hist := h, state := if st.state < 7 then 9 else 11 }, false)
  | .rep idx len =>
    if len < 2 ∨ len > 273 ∨ idx > 3 then none
    else
      let st := match idx with
        | 0 => st
        | 1 => { st with rep0 := st.rep1, rep1 := st.rep0 }
        | 2 => { st with rep0 := st.rep2, rep1 := st.rep0, rep2 := st.rep1 }
        | _ => { st with rep0 := st.rep3, rep1 := st.rep0, rep2 := st.rep1, rep3 := st.rep2 }
      if st.rep0 + 1 > dict then none
      else (copy len (st.rep0 + 1) st.hist).map fun h =>
        ({ st with hist := h, state := if st.state < 7 then 8 else 11 }, false)
  | .eos => some (st, true)

/-- run a program; the end marker, if any, must be the last symbol -/
def run (dict : Nat) : SpecSt → List Sym → Option (SpecSt × Bool)
  | st, [] => some (st, false)
  | st, s :: rest =>
    match step dict st s with
    | none => none
    | some (st', true) => if rest.isEmpty then some (st', true) else none
    | some (st', false) => run dict st' rest

end SpecSt

/-- the bytes a well-formed program denotes -/
def expand (dict : Nat) (prog : List Sym) : Option Bytes :=
  (SpecSt.run dict {} prog).map fun r => r.1.hist.toList

/-! ## events -/

/-- one coded bit: with an adaptive probability, or direct -/
inductive Ev where
  | pbit (i : PIdx) (b : Bool)
  | dbit (b : Bool)
  deriving Repr, DecidableEq, Inhabited

/-- MSB-first bit tree emission of `value < 2^numBits` -/
def bitTreeEv (mk : Nat → PIdx) : Nat → Nat → Nat → List Ev
  | 0, _, _ => []
  | n+1, tmp, value =>
    let b := (value >>> n) &&& 1
    .pbit (mk tmp) (b != 0) :: bitTreeEv mk n (2 * tmp + b) value

/-- LSB-first (reverse) bit tree emission -/
def revBitTreeEv (mk : Nat → PIdx) (offset : Nat) : Nat → Nat → Nat → List Ev
  | 0, _, _ => []
  | n+1, tmp, value =>
    let b := value &&& 1
    .pbit (mk (offset + tmp)) (b != 0) :: revBitTreeEv mk offset n (2 * tmp + b) (value >>> 1)

def directEv : Nat → Nat → List Ev
  | 0, _ => []
  | n+1, value => .dbit (((value >>> n) &&& 1) != 0) :: directEv n value

/-- length `l` = real length − 2, 0..271 -/
def lenEv (rep : Bool) (ps : Nat) (l : Nat) : List Ev :=
  if l < 8 then .pbit (.lenChoice rep) false :: bitTreeEv (.lenLow rep ps) 3 1 l
  else if l < 16 then
    .pbit (.lenChoice rep) true :: .pbit (.lenChoice2 rep) false :: bitTreeEv (.lenMid rep ps) 3 1 (l - 8)
  else
    .pbit (.lenChoice rep) true :: .pbit (.lenChoice2 rep) true :: bitTreeEv (.lenHigh rep) 8 1 (l - 16)

/-- number of bits of `n` (0 for 0) -/
def bitLen (n : Nat) : Nat := if n = 0 then 0 else Nat.log2 n + 1

/-- position slot of distance-minus-one `d` -/
def posSlotOf (d : Nat) : Nat :=
  if d < 4 then d
  else
    let n := bitLen d            -- d in [2^(n-1), 2^n)
    2 * (n - 1) + ((d >>> (n - 2)) &&& 1)

def distEv (l : Nat) (d : Nat) : List Ev :=
  let lenState := if l > 3 then 3 else l
  let slot := posSlotOf d
  bitTreeEv (.posSlot lenState) 6 1 slot ++
    (if slot < 4 then []
     else
       let nd := (slot >>> 1) - 1
       let base := (2 ^^^ (slot &&& 1)) <<< nd
       let r := d - base
       if slot < 14 then revBitTreeEv .posDec (base - slot) nd 1 r
       else directEv (nd - 4) (r >>> 4) ++ revBitTreeEv .align 0 4 1 (r &&& 0xF))

def litPlainEv (row : Nat) (byte : Nat) : Nat → Nat → List Ev
  | 0, _ => []
  | n+1, result =>
    let b := (byte >>> n) &&& 1
    .pbit (.lit row result) (b != 0) :: litPlainEv row byte n (2 * result + b)

def litMatchedEv (row : Nat) (byte : Nat) : Nat → Nat → Nat → List Ev
  | 0, _, _ => []
  | n+1, matchByte, result =>
    let mb := (matchByte >>> 7) &&& 1
    let b := (byte >>> n) &&& 1
    .pbit (.lit row (((1 + mb) <<< 8) + result)) (b != 0) ::
      (if mb != b then litPlainEv row byte n (2 * result + b)
       else litMatchedEv row byte n (matchByte <<< 1) (2 * result + b))

/-- the context a conforming encoder is in (the same quantities as `Ctx`, pure) -/
structure ECtx where
  state : Nat
  posState : Nat
  litRow : Nat
  matchByte : Nat
  deriving Repr, Inhabited

/-- events of one raw symbol in a context -/
def rawSymEvents (c : ECtx) : RawSym → List Ev
  | .lit byte =>
    .pbit (.isMatch ((c.state <<< 4) + c.posState)) false ::
      (if c.state ≥ 7 then litMatchedEv c.litRow byte 8 c.matchByte 1 else litPlainEv c.litRow byte 8 1)
  | .shortRep =>
    [.pbit (.isMatch ((c.state <<< 4) + c.posState)) true, .pbit (.isRep c.state) true,
     .pbit (.isRepG0 c.state) false, .pbit (.isRep0Long ((c.state <<< 4) + c.posState)) false]
  | .rep idx l =>
    [.pbit (.isMatch ((c.state <<< 4) + c.posState)) true, .pbit (.isRep c.state) true] ++
    (match idx with
     | 0 => [.pbit (.isRepG0 c.state) false, .pbit (.isRep0Long ((c.state <<< 4) + c.posState)) true]
     | 1 => [.pbit (.isRepG0 c.state) true, .pbit (.isRepG1 c.state) false]
     | 2 => [.pbit (.isRepG0 c.state) true, .pbit (.isRepG1 c.state) true, .pbit (.isRepG2 c.state) false]
     | _ => [.pbit (.isRepG0 c.state) true, .pbit (.isRepG1 c.state) true, .pbit (.isRepG2 c.state) true]) ++
    lenEv true c.posState l
  | .mtch l d =>
    [.pbit (.isMatch ((c.state <<< 4) + c.posState)) true, .pbit (.isRep c.state) false] ++
    lenEv false c.posState l ++ distEv l d

/-- format-level symbol → raw symbol -/
def Sym.toRaw : Sym → RawSym
  | .lit b => .lit b.toNat
  | .mtch dist len => .mtch (len - 2) (dist - 1)
  | .shortRep => .shortRep
  | .rep idx len => .rep idx (len - 2)
  | .eos => .mtch 0 0xFFFFFFFF

/-! ## reference encoder -/

/-- direct bit on the range encoder (absent from the Rust encoder, which never
emits one; standard LZMA) -/
def REnc.encodeDirect (e : REnc) (bit : Bool) : M REnc := do
  let range := e.range >>> 1
  let low := if bit then e.low + range else e.low
  REnc.normalize 4 { e with range := range, low := low }

def encodeEvents : List Ev → Probs → REnc → M (Probs × REnc)
  | [], p, e => pure (p, e)
  | .pbit i b :: rest, p, e => do
    let v ← liftE (p.get i)
    let (e, v') ← e.encodeBit v b
    encodeEvents rest (p.set i v') e
  | .dbit b :: rest, p, e => do
    let e ← REnc.encodeDirect e b
    encodeEvents rest p e

/-- coder state shared between encoder and decoder across symbols (and across
LZMA2 chunks without state reset) -/
structure EncSt where
  props : Props
  probs : Probs
  spec : SpecSt := {}
  deriving Repr, Inhabited

def EncSt.new (props : Props) : EncSt :=
  { props := props, probs := Probs.init (1 <<< (props.lc + props.lp)) }

def EncSt.ctx (s : EncSt) : ECtx :=
  let len := s.spec.hist.size
  let prev := if len = 0 then 0 else (s.spec.hist[len - 1]?.getD 0).toNat
  { state := s.spec.state
    posState := len &&& ((1 <<< s.props.pb) - 1)
    litRow := ((len &&& ((1 <<< s.props.lp) - 1)) <<< s.props.lc) + (prev >>> (8 - s.props.lc))
    matchByte := (s.spec.hist[len - (s.spec.rep0 + 1)]?.getD 0).toNat }

/-- encode a program; ill-formed symbols are encoded as they are (used to build
malformed streams) but the history is only extended by well-formed ones -/
def encodeProg (dict : Nat) : List Sym → EncSt → REnc → M (EncSt × REnc)
  | [], s, e => pure (s, e)
  | sym :: rest, s, e => do
    let evs := rawSymEvents s.ctx sym.toRaw
    let (probs, e) ← encodeEvents evs s.probs e
    let spec := match SpecSt.step dict s.spec sym with
      | some (st, _) => st
      | none =>
        -- keep the register effects of an ill-formed copy so that later symbols stay coherent
        match sym with
        | .mtch dist _ => { s.spec with rep3 := s.spec.rep2, rep2 := s.spec.rep1, rep1 := s.spec.rep0,
                                        rep0 := dist - 1, state := if s.spec.state < 7 then 7 else 10 }
        | _ => s.spec
    encodeProg dict rest { s with probs := probs, spec := spec } e

/-- the payload (range-coder bytes incl. the 5-byte flush) of a program from a fresh coder -/
def encodeSyms (props : Props) (dict : Nat) (prog : List Sym) : Bytes :=
  let m : M Unit := do
    let (_, e) ← encodeProg dict prog (EncSt.new props) {}
    let _ ← e.finish
    pure ()
  (m {}).1.out.toList

/-- `.lzma` header -/
def lzmaHeader (props : Props) (dictField : Nat) (sizeField : Option Nat) : Bytes :=
  UInt8.ofNat (props.lc + 9 * (props.lp + 5 * props.pb)) :: leBytes 4 dictField ++
    (match sizeField with
     | some n => leBytes 8 n
     | none => [])

end Lzma
