/-
  LzmaSpec.Events — interpreting a decision tree against a list of abstract
  events (no arithmetic coding): the bridge between the symbol layer and the
  range-coder layer.
-/
import LzmaSpec.Sym
namespace Lzma

/-- follow the path of `t` that the events describe; `none` when the events do
not fit the tree (wrong probability index, wrong kind of bit, events exhausted)
or the tree fails; returns the result and the unused events -/
def runEv : Coder PIdx α → List Ev → Option (α × List Ev)
  | .ret a, evs => some (a, evs)
  | .fail _, _ => none
  | .bit i k, .pbit j b :: rest => if i = j then runEv (k b) rest else none
  | .direct k, .dbit b :: rest => runEv (k b) rest
  | _, _ => none

end Lzma
