import LzmaProofs.Lemmas.Monad
import LzmaProofs.Props.C01Sym
import LzmaProofs.Props.C13
