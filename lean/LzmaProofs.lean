import LzmaProofs.Lemmas.Monad
import LzmaProofs.Props.C01Sym
