import LzmaProofs.Lemmas.Monad
