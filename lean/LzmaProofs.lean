import LzmaProofs.Lemmas.Monad
import LzmaProofs.Lemmas.RangeCoder
import LzmaProofs.Props.C01
import LzmaProofs.Props.C01Sym
import LzmaProofs.Props.C03
import LzmaProofs.Props.C04
import LzmaProofs.Props.C13
