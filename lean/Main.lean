import LzmaGen.Proto
import LzmaGen.Gen
open Lzma

partial def runLoop (h : IO.FS.Stream) (out : IO.FS.Stream) : IO Unit := do
  let line ← h.getLine
  if line.isEmpty then return ()
  let t := line.trimAscii.toString
  if !t.isEmpty then
    out.putStrLn (Proto.runCase t)
    out.flush          -- one answer per request also over a pipe (the differential fuzz target talks to a child)
  runLoop h out

def main (args : List String) : IO UInt32 := do
  match args with
  | ["run"] =>
    let stdin ← IO.getStdin
    let stdout ← IO.getStdout
    runLoop stdin stdout
    stdout.flush
    return 0
  | ["script"] =>
    let stdin ← IO.getStdin
    let stdout ← IO.getStdout
    let rec loop : Nat → IO Unit
      | 0 => pure ()
      | n+1 => do
        let line ← stdin.getLine
        if line.isEmpty then return ()
        let t := line.trimAscii.toString
        if !t.isEmpty then stdout.putStrLn (Gen.scriptLine t)
        loop n
    loop 100000000
    stdout.flush
    return 0
  | "gen" :: kind :: seed :: n :: _ =>
    let stdout ← IO.getStdout
    for l in Gen.generate kind seed.toNat! n.toNat! do
      stdout.putStrLn l
    stdout.flush
    return 0
  | _ =>
    IO.eprintln "usage: lzmodel run | gen <kind> <seed> <n> | script"
    return 2
