//! Differential fuzz target: a protocol line (the same text the correspondence check uses) is run on
//! lzma-rs in-process (the harness code, included as a module) and on the Lean model (a child process
//! speaking the line protocol); any difference between the two answers aborts, and libFuzzer keeps the
//! line as the artifact.  Coverage feedback comes from the instrumented lzma-rs, so code that a change
//! adds to /repo is explored too.  A custom mutator keeps every input a well-formed protocol line: it
//! mutates the binary payloads with libFuzzer's own mutators and edits options, reader kinds, chunkings
//! and operation sequences structurally.
//!
//! This is a search for inputs on which model and implementation differ (validation of the model
//! against the code); it proves nothing and replaces no theorem.
#![no_main]
use libfuzzer_sys::{fuzz_mutator, fuzz_target, fuzzer_mutate};
use std::io::{BufRead, BufReader, Write};
use std::process::{Child, ChildStdin, ChildStdout, Command, Stdio};
use std::sync::Mutex;

#[allow(dead_code)]
#[path = "../../harness/src/main.rs"]
mod h;

struct Model {
    _child: Child,
    stdin: ChildStdin,
    stdout: BufReader<ChildStdout>,
}

static MODEL: Mutex<Option<Model>> = Mutex::new(None);

fn model_answer(line: &str) -> String {
    let mut g = MODEL.lock().unwrap();
    if g.is_none() {
        let bin = std::env::var("LZV_MODEL_BIN")
            .unwrap_or_else(|_| "/verif/lean/.lake/build/bin/lzmodel".to_string());
        let mut child = Command::new(bin)
            .arg("run")
            .stdin(Stdio::piped())
            .stdout(Stdio::piped())
            .stderr(Stdio::null())
            .spawn()
            .expect("cannot start the model");
        let stdin = child.stdin.take().unwrap();
        let stdout = BufReader::new(child.stdout.take().unwrap());
        *g = Some(Model {
            _child: child,
            stdin,
            stdout,
        });
    }
    let m = g.as_mut().unwrap();
    m.stdin.write_all(line.as_bytes()).unwrap();
    m.stdin.write_all(b"\n").unwrap();
    m.stdin.flush().unwrap();
    let mut ans = String::new();
    m.stdout.read_line(&mut ans).unwrap();
    ans.trim().to_string()
}

/// token-wise equality; `unspec` on either side is a wildcard (result of a decode that follows a
/// failed decode without reset: left unspecified by the model)
fn same(a: &str, b: &str) -> bool {
    if a == b {
        return true;
    }
    let x: Vec<&str> = a.split(' ').collect();
    let y: Vec<&str> = b.split(' ').collect();
    x.len() == y.len()
        && x.iter()
            .zip(y.iter())
            .all(|(p, q)| p == q || *p == "unspec" || *q == "unspec")
}

const OPS: [&str; 7] = ["lzma", "lzma2", "xz", "stream", "rawlzma", "rawlzma2", "enc"];

fn well_formed(line: &str) -> bool {
    if line.len() < 4 || line.contains('\n') || !line.is_ascii() {
        return false;
    }
    let op = line.split(' ').next().unwrap_or("");
    OPS.contains(&op) && line.contains(" id=0 ")
}

fuzz_target!(|data: &[u8]| {
    let line = match std::str::from_utf8(data) {
        Ok(s) => s.trim(),
        Err(_) => return,
    };
    if !well_formed(line) {
        return;
    }
    let got = format!("id=0 {}", h::run_line(line));
    let want = model_answer(line);
    if !same(&want, &got) {
        eprintln!("DISAGREEMENT\nline:  {}\nmodel: {}\nimpl:  {}", line, want, got);
        std::process::abort();
    }
});

// ------------------------------------------------------------------ structural mutator

struct Rng(u64);
impl Rng {
    fn next(&mut self) -> u64 {
        self.0 = self
            .0
            .wrapping_mul(6364136223846793005)
            .wrapping_add(1442695040888963407);
        self.0 >> 33
    }
    fn below(&mut self, n: usize) -> usize {
        if n == 0 {
            0
        } else {
            (self.next() as usize) % n
        }
    }
    fn pick<'a>(&mut self, xs: &[&'a str]) -> &'a str {
        xs[self.below(xs.len())]
    }
}

fn unhex(s: &str) -> Option<Vec<u8>> {
    if s.len() % 2 != 0 {
        return None;
    }
    let b = s.as_bytes();
    let mut out = Vec::with_capacity(b.len() / 2);
    for i in (0..b.len()).step_by(2) {
        let hi = (b[i] as char).to_digit(16)?;
        let lo = (b[i + 1] as char).to_digit(16)?;
        out.push((hi * 16 + lo) as u8);
    }
    Some(out)
}

fn hex(b: &[u8]) -> String {
    let mut s = String::with_capacity(b.len() * 2);
    for x in b {
        s.push_str(&format!("{:02x}", x));
    }
    s
}

/// libFuzzer's own byte mutators on a decoded payload
fn mutate_bytes(b: &mut Vec<u8>, grow: usize) {
    let size = b.len();
    let max = (size + grow).max(1);
    b.resize(max, 0);
    let n = fuzzer_mutate(b, size, max);
    b.truncate(n);
}

fn crc32(b: &[u8]) -> u32 {
    crc::Crc::<u32>::new(&crc::CRC_32_ISO_HDLC).checksum(b)
}

fn multibyte(b: &[u8], pos: &mut usize) -> Option<u64> {
    let mut v = 0u64;
    for i in 0..9 {
        let x = *b.get(*pos)?;
        *pos += 1;
        v |= ((x & 0x7F) as u64) << (7 * i);
        if x & 0x80 == 0 {
            return Some(v);
        }
    }
    None
}

/// best effort: recompute the CRC32 fields of an .xz file (stream header, footer, index, block headers
/// located through the index) so that a mutated field is judged by its own validation, not by the CRC
/// that covers it; stops silently where the structure cannot be followed
fn xz_fixup(b: &mut Vec<u8>) {
    let n = b.len();
    if n >= 12 {
        let c = crc32(&b[6..8]);
        b[8..12].copy_from_slice(&c.to_le_bytes());
    }
    if n < 24 + 8 {
        return;
    }
    let c = crc32(&b[n - 8..n - 2]);
    b[n - 12..n - 8].copy_from_slice(&c.to_le_bytes());
    let bs = u32::from_le_bytes([b[n - 8], b[n - 7], b[n - 6], b[n - 5]]) as usize;
    let isize = match bs.checked_add(1).and_then(|x| x.checked_mul(4)) {
        Some(x) if x + 24 <= n && x >= 8 => x,
        _ => return,
    };
    let istart = n - 12 - isize;
    let c = crc32(&b[istart..istart + isize - 4]);
    b[istart + isize - 4..istart + isize].copy_from_slice(&c.to_le_bytes());
    // block headers
    let mut pos = istart + 1;
    let count = match multibyte(b, &mut pos) {
        Some(c) if c <= 64 => c,
        _ => return,
    };
    let mut at = 12usize;
    for _ in 0..count {
        let unpadded = match multibyte(b, &mut pos) {
            Some(u) => u as usize,
            None => return,
        };
        if multibyte(b, &mut pos).is_none() {
            return;
        }
        if at >= istart {
            return;
        }
        let hs = (b[at] as usize + 1) * 4;
        if hs < 8 || at + hs > istart {
            return;
        }
        let c = crc32(&b[at..at + hs - 4]);
        b[at + hs - 4..at + hs].copy_from_slice(&c.to_le_bytes());
        at = match at.checked_add((unpadded + 3) & !3) {
            Some(x) => x,
            None => return,
        };
    }
}

fn size_value(rng: &mut Rng, near: usize) -> String {
    let k = rng.below(12);
    match k {
        0 => "0".to_string(),
        1 => "1".to_string(),
        2 => format!("{}", near),
        3 => format!("{}", near + 1),
        4 => format!("{}", near.saturating_sub(1)),
        5 => "4294967296".to_string(),
        6 => "9223372036854775808".to_string(),
        7 => "18446744073709551615".to_string(),
        8 => "18446744073709551614".to_string(),
        9 => "4096".to_string(),
        _ => format!("{}", rng.below(70000)),
    }
}

fn reader_kind(rng: &mut Rng, n: usize) -> String {
    match rng.below(6) {
        0 => "flat".to_string(),
        1 => "cur".to_string(),
        2 => format!("buf:{}", 1 + rng.below(20)),
        3 => format!("frag:{}:{}", 1 + rng.below(999), 1 + rng.below(7)),
        4 => format!("cut:{}", 1 + rng.below(n.max(1))),
        _ => format!(
            "cut:{},{}",
            1 + rng.below(n.max(1)),
            1 + rng.below(n.max(1))
        ),
    }
}

fn set_field(toks: &mut Vec<String>, key: &str, val: Option<String>) {
    let pre = format!("{}=", key);
    toks.retain(|t| !t.starts_with(&pre));
    if let Some(v) = val {
        // keep the (long) payload field last
        let at = toks.len().saturating_sub(1).max(2).min(toks.len());
        toks.insert(at, format!("{}{}", pre, v));
    }
}

fn mutate_ops(ops: &str, rng: &mut Rng, kind: &str, grow: usize) -> String {
    let mut v: Vec<String> = ops.split(';').map(|s| s.to_string()).collect();
    if v.is_empty() {
        return ops.to_string();
    }
    let data_idx: Vec<usize> = v
        .iter()
        .enumerate()
        .filter(|(_, t)| {
            t.starts_with("d:") || t.starts_with("w:") || t.starts_with("wa:") || t.starts_with("wx:")
        })
        .map(|(i, _)| i)
        .collect();
    match rng.below(10) {
        0..=4 if !data_idx.is_empty() => {
            // mutate one payload
            let i = data_idx[rng.below(data_idx.len())];
            let (tag, h) = v[i].split_once(':').map(|(a, b)| (a.to_string(), b.to_string())).unwrap();
            if let Some(mut b) = unhex(&h) {
                mutate_bytes(&mut b, grow);
                v[i] = format!("{}:{}", tag, hex(&b));
            }
        }
        5 if !data_idx.is_empty() => {
            // split one payload in two calls (re-chunking), or duplicate it
            let i = data_idx[rng.below(data_idx.len())];
            let (tag, h) = v[i].split_once(':').map(|(a, b)| (a.to_string(), b.to_string())).unwrap();
            if kind == "stream" && h.len() >= 4 {
                let cut = 2 * (1 + rng.below(h.len() / 2 - 1));
                v[i] = format!("{}:{}", tag, &h[..cut]);
                v.insert(i + 1, format!("{}:{}", tag, &h[cut..]));
            } else {
                let c = v[i].clone();
                v.insert(i, c);
            }
        }
        6 if !data_idx.is_empty() && kind == "stream" => {
            // another flavour of the same call
            let i = data_idx[rng.below(data_idx.len())];
            let h = v[i].split_once(':').unwrap().1.to_string();
            v[i] = format!("{}:{}", rng.pick(&["w", "wa", "wx"]), h);
        }
        7 => {
            // insert a control op
            let at = rng.below(v.len() + 1);
            let op = match kind {
                "stream" => rng.pick(&["f", "st", "w:", "wa:00"]).to_string(),
                "rawlzma" => match rng.below(4) {
                    0 => "r".to_string(),
                    1 => "st".to_string(),
                    2 => "rs:none".to_string(),
                    _ => format!("rs:{}", size_value(rng, 10)),
                },
                _ => rng.pick(&["r", "st"]).to_string(),
            };
            v.insert(at, op);
        }
        8 if v.len() > 1 => {
            // drop an op
            let at = rng.below(v.len());
            v.remove(at);
        }
        _ if v.len() > 1 => {
            // swap two ops
            let a = rng.below(v.len());
            let b = rng.below(v.len());
            v.swap(a, b);
        }
        _ => {}
    }
    if kind == "stream" {
        // exactly one `fin`, at the end
        v.retain(|t| t != "fin");
        v.push("fin".to_string());
    }
    v.join(";")
}

fn mutate_line(line: &str, seed: u32, max_size: usize) -> Option<String> {
    let mut rng = Rng(seed as u64 ^ 0x9E3779B97F4A7C15);
    rng.next();
    let mut toks: Vec<String> = line.split(' ').map(|s| s.to_string()).collect();
    if toks.len() < 3 {
        return None;
    }
    let op = toks[0].clone();
    let grow = max_size.saturating_sub(line.len()) / 2;
    let find = |toks: &Vec<String>, key: &str| -> Option<usize> {
        let pre = format!("{}=", key);
        toks.iter().position(|t| t.starts_with(&pre))
    };
    let choice = rng.below(10);
    match op.as_str() {
        "lzma" | "lzma2" | "xz" | "enc" => {
            if choice < 6 {
                let i = find(&toks, "in")?;
                let mut b = unhex(&toks[i][3..])?;
                match (op.as_str(), rng.below(8)) {
                    ("xz", 0) | ("lzma2", 0) if b.len() < 3000 => {
                        // the input followed by a copy of itself / of its tail
                        let t = if rng.below(2) == 0 { b.clone() } else { b[b.len() - b.len().min(12)..].to_vec() };
                        b.extend_from_slice(&t);
                    }
                    _ => mutate_bytes(&mut b, grow.min(4096)),
                }
                if op == "xz" && rng.below(2) == 0 {
                    xz_fixup(&mut b);
                }
                toks[i] = format!("in={}", hex(&b));
            } else if op == "enc" {
                match rng.below(3) {
                    0 => {
                        let n = 1 + rng.below(12);
                        let fr: Vec<String> = (0..n).map(|_| format!("{}", 1 + rng.below(9))).collect();
                        set_field(&mut toks, "frags", Some(fr.join(",")));
                    }
                    1 => {
                        let n = rng.below(8);
                        let mut sc: Vec<String> =
                            (0..n).map(|_| rng.pick(&["a", "u1", "u3", "u100"]).to_string()).collect();
                        sc.push(rng.pick(&["f", "a", "u1"]).to_string());
                        set_field(&mut toks, "sink", Some(sc.join(",")));
                    }
                    _ => set_field(&mut toks, "rbad", Some(rng.pick(&["0", "1"]).to_string())),
                }
            } else {
                let n = find(&toks, "in").map(|i| toks[i].len() / 2).unwrap_or(1);
                match rng.below(4) {
                    0 => set_field(&mut toks, "rk", Some(reader_kind(&mut rng, n))),
                    1 if op == "lzma" => {
                        let v = match rng.below(5) {
                            0 => "hdr".to_string(),
                            1 => "hup:none".to_string(),
                            2 => format!("hup:{}", size_value(&mut rng, n)),
                            3 => "up:none".to_string(),
                            _ => format!("up:{}", size_value(&mut rng, n)),
                        };
                        set_field(&mut toks, "us", Some(v));
                    }
                    2 if op == "lzma" => {
                        let v = if rng.below(3) == 0 { "none".to_string() } else { size_value(&mut rng, n) };
                        set_field(&mut toks, "ml", Some(v));
                    }
                    _ => {
                        let n = rng.below(6);
                        let mut sc: Vec<String> =
                            (0..n).map(|_| rng.pick(&["a", "u1", "u7", "u1000"]).to_string()).collect();
                        if rng.below(2) == 0 {
                            sc.push("f".to_string());
                        }
                        set_field(&mut toks, "sink", if sc.is_empty() { None } else { Some(sc.join(",")) });
                    }
                }
            }
        }
        "stream" | "rawlzma" | "rawlzma2" => {
            if choice < 8 {
                let i = find(&toks, "ops")?;
                let m = mutate_ops(&toks[i][4..], &mut rng, &op, grow.min(2048));
                toks[i] = format!("ops={}", m);
            } else if op == "stream" {
                match rng.below(3) {
                    0 => {
                        let v = match rng.below(5) {
                            0 => "hdr".to_string(),
                            1 => "hup:none".to_string(),
                            2 => format!("hup:{}", size_value(&mut rng, 50)),
                            3 => "up:none".to_string(),
                            _ => format!("up:{}", size_value(&mut rng, 50)),
                        };
                        set_field(&mut toks, "us", Some(v));
                    }
                    1 => set_field(&mut toks, "ai", Some(rng.pick(&["0", "1"]).to_string())),
                    _ => {
                        let v = if rng.below(3) == 0 { "none".to_string() } else { size_value(&mut rng, 50) };
                        set_field(&mut toks, "ml", Some(v));
                    }
                }
            } else if op == "rawlzma" {
                match rng.below(5) {
                    0 => set_field(&mut toks, "lc", Some(format!("{}", rng.below(9)))),
                    1 => set_field(&mut toks, "lp", Some(format!("{}", rng.below(5)))),
                    2 => set_field(&mut toks, "pb", Some(format!("{}", rng.below(5)))),
                    3 => set_field(
                        &mut toks,
                        "dict",
                        Some(rng.pick(&["1", "2", "3", "7", "4096", "4097", "65536", "4294967295"]).to_string()),
                    ),
                    _ => {
                        let v = if rng.below(3) == 0 { "none".to_string() } else { size_value(&mut rng, 50) };
                        set_field(&mut toks, if rng.below(2) == 0 { "us" } else { "ml" }, Some(v));
                    }
                }
            }
        }
        _ => return None,
    }
    let out = toks.join(" ");
    if out.len() > max_size {
        None
    } else {
        Some(out)
    }
}

fuzz_mutator!(|data: &mut [u8], size: usize, max_size: usize, seed: u32| {
    let line = match std::str::from_utf8(&data[..size]) {
        Ok(s) if well_formed(s.trim()) => s.trim().to_string(),
        _ => return size,
    };
    match mutate_line(&line, seed, max_size) {
        Some(out) if out.len() <= max_size => {
            data[..out.len()].copy_from_slice(out.as_bytes());
            out.len()
        }
        _ => size,
    }
});
